"""Instruction semantics (mixin of FuncRun)."""
import re
from . import terms as T
from .state import State, fresh_like, same_value
from .cparse import ParseError
from .values import SliceV, StructV, TupleV, PtrV, ClosureV, Unsupported, is_term


def const_array(sort, val):
    return ('a', 'uf:constarr_%s' % ('b' if sort == T.BOOL else 'i'),) if False else None


class InstrMixin:

    # ------------------------------------------------------------ operands
    def val(self, ctx, op):
        if isinstance(op, str):
            key = (ctx['frame'], op)
            if key not in self.regs:
                raise Unsupported('use of undefined register %s' % op)
            return self.regs[key]
        if op is None:
            return None
        if 'c' in op:
            return self.const_value(op)
        if 'p' in op:
            return ctx['params'][op['p']]
        if 'fv' in op:
            return ctx['freevars'][op['fv']]
        if 'fn' in op:
            return ClosureV(op['fn'], [])
        if 'g' in op:
            p = PtrV('box', self.global_ref(op['g']), self.ty.elem(op['t']))
            if op['g'] in self.KNOWN_ERRORS:
                p.c = op['g']
            return p
        if 'b' in op:
            return ('builtin', op['b'])
        raise Unsupported('operand %r' % (op,))

    KNOWN_ERRORS = {'io.EOF': 'eof', 'io.ErrUnexpectedEOF': 'unexpectedeof', 'io.ErrShortWrite': 'shortwrite',
                    'github.com/itchio/wharf/werrors.ErrCancelled': 'cancelled', 'io.ErrShortBuffer': 'shortbuffer',
                    'context.Canceled': 'ctxcanceled', 'github.com/itchio/wharf/pwr/patcher.ErrStop': 'patcherstop',
                    'github.com/itchio/wharf/wire.ErrFormat': 'wireformat'}

    def global_ref(self, name):
        return T.V('global|' + name)

    def known_error(self, name):
        """immutable package-level error values: distinct non-nil constants; only io.EOF satisfies isEOF."""
        tag = self.KNOWN_ERRORS[name]
        v = T.V('err|' + tag)
        k = sorted(self.KNOWN_ERRORS.values()).index(tag) + 1
        self.add_fact_once(T.eq(v, T.I(900000 + k)))
        self.add_fact_once(T.eq(self.uf_iseof(v), T.Bc(tag == 'eof')))
        self.add_fact_once(T.eq(self.uf_errkind(v), T.I(self.err_kind_id(tag))))
        return v

    def const_value(self, op):
        tn = op['t']
        c = op['c']
        if op.get('str'):
            if c not in self.strconsts:
                self.strconsts[c] = T.I(1000000 + len(self.strconsts))
                f = T.UF('strlen', [T.INT], T.INT)
                self.add_fact_once(T.eq(f(self.strconsts[c]), T.I(len(c.encode('utf-8')))))
            return self.strconsts[c]
        if c == 'nil':
            return self.ty.zero(tn)
        if c in ('true', 'false'):
            return T.Bc(c == 'true')
        if op.get('float') or self.ty.is_float(tn):
            return T.fresh('flt')
        try:
            return T.I(int(c))
        except ValueError:
            return T.fresh('const')

    def setreg(self, ctx, ins, v):
        self.regs[(ctx['frame'], ins['id'])] = v

    # ------------------------------------------------------------ integer helpers
    def wrap_to(self, x, tn, force=False):
        r = self.ty.int_range(tn)
        if r is None:
            return x
        lo, hi = r
        if x[0] == 'i':
            n = hi - lo + 1
            return T.I((x[1] - lo) % n + lo)
        if lo == 0:
            return T.smod(x, T.I(hi + 1))
        if self.mode == 'wrap' or force:
            n = hi - lo + 1
            return T.add(T.smod(T.sub(x, T.I(lo)), T.I(n)), T.I(lo))
        return x

    def binop(self, ctx, ins, st):
        tok = ins['tok']
        x = self.val(ctx, ins['x'])
        y = self.val(ctx, ins['y'])
        xt = ins['xtype']
        rt = ins['type']
        if tok in ('==', '!='):
            e = self.go_equal(x, y, xt, st)
            return e if tok == '==' else T.not_(e)
        if self.ty.is_float(xt) or self.ty.is_float(rt):
            if tok in ('<', '<=', '>', '>='):
                return T.fresh('fcmp', T.BOOL)
            return T.fresh('flt')
        if self.ty.is_string(xt):
            if tok == '+':
                r = T.fresh('strcat')
                self.add_hyp(T.eq(self.strlen(r), T.add(self.strlen(x), self.strlen(y))))
                return r
            if tok in ('<', '<=', '>', '>='):
                return T.fresh('scmp', T.BOOL)
        if self.ty.is_bool(xt):
            if tok == '&&' or tok == '&':
                return T.and_(x, y)
            if tok == '||' or tok == '|':
                return T.or_(x, y)
            raise Unsupported('bool op %s' % tok)
        if not (is_term(x) and is_term(y)):
            raise Unsupported('binop on composite')
        if tok == '<':
            return T.lt(x, y)
        if tok == '<=':
            return T.le(x, y)
        if tok == '>':
            return T.gt(x, y)
        if tok == '>=':
            return T.ge(x, y)
        if tok == '+':
            return self.wrap_to(T.add(x, y), rt)
        if tok == '-':
            return self.wrap_to(T.sub(x, y), rt)
        if tok == '*':
            return self.wrap_to(T.mul(x, y), rt)
        if tok in ('/', '%'):
            self.oblige('div0', T.not_(T.eq(y, T.ZERO)), st, self.prog.srcline(ins['pos']), ins['pos'],
                        fnname=self.cur_name(ctx))
            if tok == '/':
                return self.wrap_to(T.go_div(x, y), rt)
            return T.go_mod(x, y)
        if tok == '<<':
            if y[0] == 'i':
                return self.wrap_to(T.mul(x, T.I(1 << y[1])), rt, force=False)
            f = T.UF('shl', [T.INT, T.INT], T.INT)
            r = f(x, y)
            return self.wrap_to(r, rt)
        if tok == '>>':
            if y[0] == 'i':
                return T.sdiv(x, T.I(1 << y[1]))
            f = T.UF('shr', [T.INT, T.INT], T.INT)
            r = f(x, y)
            self.add_hyp(T.implies(T.le(T.ZERO, x), T.and_(T.le(T.ZERO, r), T.le(r, x))))
            return r
        if tok == '&':
            for a, b in ((x, y), (y, x)):
                if b[0] == 'i' and b[1] >= 0 and (b[1] + 1) & b[1] == 0:
                    return T.smod(a, T.I(b[1] + 1))
            f = T.UF('band', [T.INT, T.INT], T.INT)
            r = f(x, y)
            self.add_hyp(T.implies(T.and_(T.le(T.ZERO, x), T.le(T.ZERO, y)), T.and_(T.le(T.ZERO, r), T.le(r, x), T.le(r, y))))
            return r
        if tok in ('|', '^', '&^'):
            f = T.UF({'|': 'bor', '^': 'bxor', '&^': 'bandnot'}[tok], [T.INT, T.INT], T.INT)
            r = f(x, y)
            if tok == '|':
                self.add_hyp(T.implies(T.and_(T.le(T.ZERO, x), T.le(T.ZERO, y)),
                                       T.and_(T.le(x, r), T.le(y, r), T.le(r, T.add(x, y)))))
            elif tok == '&^':
                self.add_hyp(T.implies(T.and_(T.le(T.ZERO, x), T.le(T.ZERO, y)), T.and_(T.le(T.ZERO, r), T.le(r, x))))
            else:
                self.add_hyp(T.implies(T.and_(T.le(T.ZERO, x), T.le(T.ZERO, y)), T.and_(T.le(T.ZERO, r), T.le(r, T.add(x, y)))))
            rr = self.ty.int_range(rt)
            if rr:
                self.add_hyp(T.and_(T.le(T.I(rr[0]), r), T.le(r, T.I(rr[1]))))
            return r
        raise Unsupported('binop %s' % tok)

    def go_equal(self, x, y, tn, st):
        if is_term(x) and is_term(y):
            if T.sort_of(x) != T.sort_of(y):
                raise Unsupported('== sorts')
            return T.eq(x, y)
        if isinstance(x, SliceV) and is_term(y):
            return T.and_(T.eq(x.base, T.ZERO))
        if isinstance(y, SliceV) and is_term(x):
            return T.and_(T.eq(y.base, T.ZERO))
        if isinstance(x, SliceV) and isinstance(y, SliceV):
            # only comparison with nil is legal Go
            if y.base == T.ZERO:
                return T.eq(x.base, T.ZERO)
            if x.base == T.ZERO:
                return T.eq(y.base, T.ZERO)
        if isinstance(x, StructV) and isinstance(y, StructV):
            return T.and_(*[self.go_equal(x.fields[k], y.fields[k], None, st) for k in x.fields])
        if isinstance(x, ClosureV) or isinstance(y, ClosureV):
            # func compared with nil
            if isinstance(x, ClosureV) and isinstance(y, ClosureV):
                return T.Bc(x.fn == y.fn)
            return T.FALSE
        if isinstance(x, PtrV) or isinstance(y, PtrV):
            if isinstance(x, PtrV) and isinstance(y, PtrV):
                return T.Bc(x.key() == y.key())
            return T.FALSE
        raise Unsupported('== on %r,%r' % (x, y))

    def cur_name(self, ctx):
        return self.oname if ctx['frame'] == self.top_frame else self.inline_name(ctx)

    # ------------------------------------------------------------ block execution
    def exec_block(self, ctx, blk, st):
        """returns list of (succ, state)"""
        for ins in blk['instrs']:
            op = ins['op']
            if ins.get('pos') and ctx['spec'] is not None and ctx['spec'].asserts_at and not self.mute:
                self.check_asserts_at(ctx, ins, st)
            if ctx['spec'] is not None and getattr(ctx['spec'], 'sets_at', None):
                self.do_sets_at(ctx, ins, st, blk)
            try:
                if op == 'If':
                    c = self.val(ctx, ins['cond'])
                    s1 = st.copy()
                    s1.pc = T.and_(st.pc, c)
                    s2 = st
                    s2.pc = T.and_(st.pc, T.not_(c))
                    return [(blk['succs'][0], s1), (blk['succs'][1], s2)]
                if op == 'Jump':
                    return [(blk['succs'][0], st)]
                if op == 'Return':
                    res = [self.val(ctx, r) for r in ins['results']]
                    ctx['returns'].append((st, res))
                    return []
                if op == 'Panic':
                    self.oblige('panic', T.FALSE, st, self.prog.srcline(ins['pos']), ins['pos'], fnname=self.cur_name(ctx))
                    return []
                self.exec_instr(ctx, ins, st)
            except Unsupported as e:
                self.abstract('%s %s at %s: %s' % (op, ins.get('id', ''), ins.get('pos', ''), e))
                if 'id' in ins:
                    try:
                        v = self.ty.symbolic(ins['type'], 'abs_' + ins['id'])
                        self.setreg(ctx, ins, v)
                    except Exception:
                        self.setreg(ctx, ins, T.fresh('abs'))
                if op in ('Store', 'MapUpdate', 'Call', 'Send', 'Go', 'Defer', 'RunDefers'):
                    self.havoc_all_heap(st)
        return []

    def anchor_text(self, ctx, anchor):
        """a source-text anchor written for the baseline tree, with purely renamed variables replaced by their new names"""
        from .baseline import renames
        ren = renames(ctx['fn'])
        if ren:
            import re as _re
            for old_, new_ in ren.items():
                anchor = _re.sub(r'(?<![\w.])%s(?!\w)' % _re.escape(old_), new_, anchor)
        return ''.join(anchor.split())

    def check_asserts_at(self, ctx, ins, st):
        """statement-anchored assertions: checked where execution first reaches the source line carrying the anchor"""
        line = self.prog.srcline(ins['pos'])
        if not line:
            return
        nline = ''.join(line.split())
        for anchor, c in ctx['spec'].asserts_at:
            a0 = ''.join(anchor.split())
            if a0.startswith('<call:') and a0.endswith('>'):
                # before every call whose callee's name contains the text (see do_sets_at)
                if ins['op'] not in ('Call', 'Defer', 'Go') or a0[6:-1] not in self.callee_label(ctx, ins):
                    continue
            elif a0 not in nline and self.anchor_text(ctx, anchor) not in nline:
                continue
            key = (id(c), ctx['frame'], ins['pos'].rsplit(':', 1)[0])
            if key in self.asserted_at:
                continue
            self.asserted_at.add(key)
            try:
                env = self.make_env(ctx, st, ctx.get('block'))
                t = self.eval_bool(c.parse(), env)
                self.oblige('assert', t, st, c.text, ins['pos'], clause=c, fnname=self.cur_name(ctx))
            except Unsupported as e:
                self.elab_fail('assert-at %r: %s' % (anchor, e), c)

    def callee_label(self, ctx, ins):
        """name a call can be addressed by in `<call:...>` anchors: the callee's (qualified) name, or the local
        variable holding the function literal that is called"""
        c2 = ins.get('call') or {}
        nm2 = str(c2.get('callee') or c2.get('method') or '')
        v2 = c2.get('value')
        if not nm2 and isinstance(v2, str):
            defs = ctx.setdefault('_defs', None)
            if defs is None:
                defs = ctx['_defs'] = {i3['id']: i3 for b3 in ctx['fn']['blocks'] for i3 in b3['instrs'] if 'id' in i3}
            d = defs.get(v2)
            if d is not None and d['op'] == 'UnOp' and isinstance(d.get('x'), str):
                a = defs.get(d['x'])
                if a is not None and a['op'] == 'Alloc':
                    nm2 = a.get('name') or ''
            elif d is not None and d['op'] == 'MakeClosure':
                nm2 = str(d.get('fn') or '')
        return nm2

    def do_sets_at(self, ctx, ins, st, blk):
        """ghost assignments anchored at a source line: `set-at` runs before the first instruction of that line in the
        current block, `set-after` after its last one (i.e. before the instruction that follows it)."""
        for anchor, g, idx, val, c in ctx['spec'].sets_at:
            after = anchor.startswith('\x00after\x00')
            atext = ''.join(anchor.replace('\x00after\x00', '').split())
            atext2 = self.anchor_text(ctx, anchor.replace('\x00after\x00', ''))
            hits = []
            if atext == '<entry>':
                # on entry to the function (before its first instruction), whatever its first statement is
                if blk['idx'] == 0 and blk['instrs']:
                    hits = [0]
            elif atext.startswith('<call:') and atext.endswith('>'):
                # at every call whose callee's name contains the given text: a function or method by (qualified) name,
                # a function literal by the local variable that holds it -- independent of how the statement is written
                want = atext[6:-1]
                for k2, i2 in enumerate(blk['instrs']):
                    if i2['op'] in ('Call', 'Defer', 'Go') and want and want in self.callee_label(ctx, i2):
                        hits.append(k2)
                if hits:
                    # every matching call of the block, not only the first
                    for h_ in hits:
                        if blk['instrs'][h_] is ins:
                            hits = [h_]
                            break
            else:
                for k2, i2 in enumerate(blk['instrs']):
                    l2 = self.prog.srcline(i2['pos']) if i2.get('pos') else None
                    if l2 and (atext in ''.join(l2.split()) or atext2 in ''.join(l2.split())):
                        hits.append(k2)
            if not hits:
                continue
            at = hits[-1] + 1 if after else hits[0]
            if at >= len(blk['instrs']) or blk['instrs'][at] is not ins:
                continue
            if g not in self.ghost_cells:
                self.elab_fail('set-at: %s is not a ghost of this function' % g, c)
                continue
            cid, sort = self.ghost_cells[g]
            try:
                env = self.make_env(ctx, st, ctx.get('block'))
                from .cparse import parse_expr
                v, _ = self.eval(parse_expr(val), env)
                if idx is not None:
                    i = self.eval_int(parse_expr(idx), env)
                    v = T.store(st.cells[cid], i, v)
                self.store(st, PtrV('cell', cid), v)
                self.clause_hits[id(c)] = self.clause_hits.get(id(c), 0) + 1
            except (Unsupported, ParseError) as e:
                self.elab_fail('set-at %r: %s' % (anchor, e), c)

    def exec_instr(self, ctx, ins, st):
        op = ins['op']
        m = getattr(self, 'i_' + op, None)
        if m is None:
            raise Unsupported('instruction %s' % op)
        m(ctx, ins, st)

    def i_Alloc(self, ctx, ins, st):
        et = ins['elem']
        cid = (ctx['frame'], ins['id'])
        k = self.ty.kind(et)
        boxed = ins['id'] in self.escaping(ctx['fn'])
        if boxed:
            r = self.fresh_ref('new_' + (ins.get('name') or ins['id']))
            self.boxrefs[cid] = (r, et, k)
            if k == 'struct':
                z = self.ty.zero(et, self.fresh_ref)
                for fname, ftype in self.ty.struct_fields(et):
                    self.store(st, PtrV('field', r, et, None, (fname,)), z.fields[fname])
                self.setreg(ctx, ins, r)
            elif k == 'array':
                un, t = self.ty.under(et)
                # the alloc register is a pointer to the array: represent by base ref; elements zeroed lazily
                self.setreg(ctx, ins, PtrV('arr', r, et))
            else:
                self.store(st, PtrV('box', r, et), self.ty.zero(et, self.fresh_ref))
                self.setreg(ctx, ins, r)
            return
        self.cell_types[cid] = et
        if k == 'array':
            r = self.fresh_ref('arr_' + (ins.get('name') or ins['id']))
            self.setreg(ctx, ins, PtrV('arr', r, et))
            return
        st.cells[cid] = self.ty.zero(et, self.fresh_ref)
        self.record_write(('cell', cid))
        self.setreg(ctx, ins, PtrV('cell', cid))

    def escaping(self, fn):
        """Alloc ids whose address flows anywhere but load/store-address/field/index/closure binding."""
        e = fn.get('_escaping')
        if e is not None:
            return e
        e = set()
        derived = {}   # reg -> root alloc id (for FieldAddr chains on allocs)
        allocs = {}
        for b in fn['blocks']:
            for ins in b['instrs']:
                if ins['op'] == 'Alloc':
                    allocs[ins['id']] = ins
        changed = True
        while changed:
            changed = False
            for b in fn['blocks']:
                for ins in b['instrs']:
                    if ins['op'] == 'FieldAddr' and isinstance(ins['x'], str):
                        root = ins['x'] if ins['x'] in allocs else derived.get(ins['x'])
                        if root and ins['id'] not in derived:
                            derived[ins['id']] = root
                            changed = True

        def root_of(o):
            if isinstance(o, str):
                if o in allocs:
                    return o
                return derived.get(o)
            return None
        for b in fn['blocks']:
            for ins in b['instrs']:
                op = ins['op']
                uses = []
                if op == 'Store':
                    uses.append(ins['val'])
                elif op in ('Call', 'Defer', 'Go'):
                    c = ins['call']
                    uses.extend(c['args'])
                    if c.get('recv') is not None:
                        uses.append(c['recv'])
                    if c.get('value') is not None:
                        uses.append(c['value'])
                elif op == 'MakeInterface' or op == 'ChangeType' or op == 'Convert' or op == 'ChangeInterface':
                    uses.append(ins['x'])
                elif op == 'Phi':
                    uses.extend(ins['edges'])
                elif op == 'Return':
                    uses.extend(ins['results'])
                elif op == 'MapUpdate':
                    uses.extend([ins['key'], ins['value']])
                elif op == 'Send':
                    uses.append(ins['x'])
                elif op == 'BinOp':
                    uses.extend([ins['x'], ins['y']])
                elif op == 'Slice':
                    r = root_of(ins['x'])
                    if r and self.ty.kind(allocs[r]['elem']) != 'array':
                        uses.append(ins['x'])
                elif op == 'Select':
                    for s_ in ins['states']:
                        if s_.get('send') is not None:
                            uses.append(s_['send'])
                for u in uses:
                    r = root_of(u)
                    if r:
                        e.add(r)
        fn['_escaping'] = e
        return e

    def i_Store(self, ctx, ins, st):
        addr = self.val(ctx, ins['addr'])
        v = self.val(ctx, ins['val'])
        if isinstance(addr, tuple) and is_term(addr):
            # pointer to a boxed scalar/struct
            vt = ins['vtype']
            if self.ty.kind(vt) == 'struct' and isinstance(v, StructV):
                for fname, ftype in self.ty.struct_fields(vt):
                    self.store(st, PtrV('field', addr, vt, None, (fname,)), v.fields[fname])
                return
            self.store(st, PtrV('box', addr, vt), v)
            return
        self.store(st, addr, v)

    def i_UnOp(self, ctx, ins, st):
        tok = ins['tok']
        x = self.val(ctx, ins['x'])
        if tok == '*':
            if is_term(x):
                et = ins['type']
                if self.ty.kind(et) == 'struct':
                    vals = {}
                    for fname, ftype in self.ty.struct_fields(et):
                        vals[fname] = self.load(st, PtrV('field', x, et, None, (fname,)))
                    self.setreg(ctx, ins, StructV(et, vals))
                else:
                    self.setreg(ctx, ins, self.load(st, PtrV('box', x, et)))
                return
            if isinstance(x, PtrV) and x.kind == 'arr':
                raise Unsupported('array value load')
            if isinstance(x, PtrV) and x.kind == 'box' and x.c in self.KNOWN_ERRORS and not x.path:
                self.setreg(ctx, ins, self.known_error(x.c))
                return
            v = self.load(st, x)
            if is_term(v) and v in self.fnvals:
                v = self.fnvals[v]
            self.setreg(ctx, ins, v)
            return
        if tok == '!':
            self.setreg(ctx, ins, T.not_(x))
            return
        if tok == '-':
            if self.ty.is_float(ins['type']):
                self.setreg(ctx, ins, T.fresh('flt'))
            else:
                self.setreg(ctx, ins, self.wrap_to(T.neg(x), ins['type']))
            return
        if tok == '^':
            r = self.ty.int_range(ins['type'])
            if r and r[0] == 0:
                self.setreg(ctx, ins, T.sub(T.I(r[1]), x))
            else:
                self.setreg(ctx, ins, T.sub(T.neg(x), T.ONE))
            return
        if tok == '<-':
            et = ins['type']
            if ins.get('commaok'):
                un, t = self.ty.under(et)
                vt = t['elems'][0]
                v = self.ty.symbolic(vt, 'recv')
                self.assume_facts(v, vt)
                okv = T.fresh('recvok', T.BOOL)
                self.setreg(ctx, ins, TupleV([v, okv]))
            else:
                vt = et
                v = self.ty.symbolic(et, 'recv')
                self.assume_facts(v, et)
                okv = T.TRUE
                self.setreg(ctx, ins, v)
            self.on_recv(ctx, st, x, v, vt, okv, T.TRUE, alternatives=0, ins=ins)
            self.sync_point(st)
            return
        raise Unsupported('unop %s' % tok)

    def sync_point(self, st):
        pass

    def i_BinOp(self, ctx, ins, st):
        self.setreg(ctx, ins, self.binop(ctx, ins, st))

    def i_FieldAddr(self, ctx, ins, st):
        x = self.val(ctx, ins['x'])
        f = ins['fname']
        if isinstance(x, PtrV):
            if x.kind == 'cell':
                self.setreg(ctx, ins, PtrV('cell', x.a, path=x.path + (f,)))
            elif x.kind in ('field', 'elem', 'box'):
                self.setreg(ctx, ins, PtrV(x.kind, x.a, x.b, x.c, x.path + (f,)))
            else:
                raise Unsupported('FieldAddr on %r' % (x,))
            return
        if is_term(x):
            self.setreg(ctx, ins, PtrV('field', x, ins['stype'], None, (f,)))
            return
        raise Unsupported('FieldAddr on %r' % (x,))

    def i_Field(self, ctx, ins, st):
        x = self.val(ctx, ins['x'])
        if isinstance(x, StructV):
            self.setreg(ctx, ins, x.fields[ins['fname']])
            return
        raise Unsupported('Field on %r' % (x,))

    def bounds(self, ctx, ins, st, cond, what):
        self.oblige('bounds', cond, st, self.prog.srcline(ins['pos']) or what, ins['pos'], fnname=self.cur_name(ctx))

    def array_of_ptr(self, x, xtype, st):
        """pointer-to-array operand -> SliceV view"""
        at = self.ty.elem(xtype)
        un, t = self.ty.under(at)
        n = T.I(t['len'])
        if isinstance(x, PtrV) and x.kind == 'arr':
            return SliceV(x.a, T.ZERO, n, n, t['elem'], True)
        if isinstance(x, PtrV) and x.kind in ('field', 'box', 'elem', 'cell'):
            v = self.load(st, x)
            if isinstance(v, SliceV):
                return v
        raise Unsupported('pointer to array %r' % (x,))

    def i_IndexAddr(self, ctx, ins, st):
        x = self.val(ctx, ins['x'])
        i = self.val(ctx, ins['index'])
        xt = ins['xtype']
        if self.ty.kind(xt) == 'pointer':
            x = self.array_of_ptr(x, xt, st)
        if not isinstance(x, SliceV):
            raise Unsupported('IndexAddr on %r' % (x,))
        self.bounds(ctx, ins, st, T.and_(T.le(T.ZERO, i), T.lt(i, x.len)), 'index')
        self.setreg(ctx, ins, PtrV('elem', x.base, T.add(x.off, i), x.elem))

    def i_Index(self, ctx, ins, st):
        x = self.val(ctx, ins['x'])
        i = self.val(ctx, ins['index'])
        xt = ins['xtype']
        if self.ty.is_string(xt):
            self.bounds(ctx, ins, st, T.and_(T.le(T.ZERO, i), T.lt(i, self.strlen(x))), 'string index')
            f = T.UF('strbyte', [T.INT, T.INT], T.INT)
            r = f(x, i)
            self.add_fact_once(T.and_(T.le(T.ZERO, r), T.le(r, T.I(255))))
            self.setreg(ctx, ins, r)
            return
        if isinstance(x, SliceV):
            self.bounds(ctx, ins, st, T.and_(T.le(T.ZERO, i), T.lt(i, x.len)), 'index')
            self.setreg(ctx, ins, self.load(st, PtrV('elem', x.base, T.add(x.off, i), x.elem)))
            return
        raise Unsupported('Index on %r' % (x,))

    def i_Slice(self, ctx, ins, st):
        x = self.val(ctx, ins['x'])
        xt = ins['xtype']
        lo = self.val(ctx, ins['low']) if ins['low'] is not None else T.ZERO
        if self.ty.is_string(xt):
            n = self.strlen(x)
            hi = self.val(ctx, ins['high']) if ins['high'] is not None else n
            self.bounds(ctx, ins, st, T.and_(T.le(T.ZERO, lo), T.le(lo, hi), T.le(hi, n)), 'string slice')
            r = T.fresh('substr')
            self.add_hyp(T.eq(self.strlen(r), T.sub(hi, lo)))
            self.setreg(ctx, ins, r)
            return
        if self.ty.kind(xt) == 'pointer':
            x = self.array_of_ptr(x, xt, st)
        if not isinstance(x, SliceV):
            raise Unsupported('Slice on %r' % (x,))
        hi = self.val(ctx, ins['high']) if ins['high'] is not None else x.len
        mx = self.val(ctx, ins['max']) if ins['max'] is not None else None
        if mx is None:
            cond = T.and_(T.le(T.ZERO, lo), T.le(lo, hi), T.le(hi, x.cap))
        else:
            cond = T.and_(T.le(T.ZERO, lo), T.le(lo, hi), T.le(hi, mx), T.le(mx, x.cap))
        self.bounds(ctx, ins, st, cond, 'slice')
        cap = T.sub(mx if mx is not None else x.cap, lo)
        self.setreg(ctx, ins, SliceV(x.base, T.add(x.off, lo), T.sub(hi, lo), cap, x.elem))

    def i_Lookup(self, ctx, ins, st):
        x = self.val(ctx, ins['x'])
        k = self.val(ctx, ins['index'])
        xt = ins['xtype']
        if self.ty.is_string(xt):
            self.bounds(ctx, ins, st, T.and_(T.le(T.ZERO, k), T.lt(k, self.strlen(x))), 'string index')
            self.setreg(ctx, ins, T.fresh('strbyte'))
            return
        if not is_term(k):
            raise Unsupported('composite map key')
        un, t = self.ty.under(xt)
        has = self.map_has(st, x, xt, k)
        v = self.map_lookup(st, x, xt, k)
        z = self.ty.zero(t['elem'])
        from .state import map_leaves
        try:
            v = map_leaves(lambda a, b: T.ite(has, a, b), v, z)
        except Unsupported:
            pass
        if ins.get('commaok'):
            self.setreg(ctx, ins, TupleV([v, has]))
        else:
            self.setreg(ctx, ins, v)

    def i_MapUpdate(self, ctx, ins, st):
        m = self.val(ctx, ins['map'])
        k = self.val(ctx, ins['key'])
        v = self.val(ctx, ins['value'])
        if not is_term(k):
            raise Unsupported('composite map key')
        self.map_update(st, m, ins['maptype'], k, v)

    def i_MakeMap(self, ctx, ins, st):
        r = self.fresh_ref('map')
        md, mv, et = self.map_names(ins['type'])
        arr = self.heap_get(st, md, T.ARR(T.INT, T.AIB))
        empty = T.V('emptyset', T.AIB)
        if 'emptyset' not in self.facted:
            self.facted.add('emptyset')
            j = T.fresh_name('j')
            self.hyps.append(T.forall([(j, T.INT)], T.not_(T.select(empty, T.V(j)))))
        self.record_write(('heap', md))
        st.heap[md] = T.store(arr, r, empty)
        self.setreg(ctx, ins, r)

    def i_MakeSlice(self, ctx, ins, st):
        n = self.val(ctx, ins['len'])
        c = self.val(ctx, ins['cap'])
        self.oblige('make', T.and_(T.le(T.ZERO, n), T.le(n, c)), st, self.prog.srcline(ins['pos']), ins['pos'],
                    fnname=self.cur_name(ctx))
        un, t = self.ty.under(ins['type'])
        base = self.fresh_ref('mk')
        self.setreg(ctx, ins, SliceV(base, T.ZERO, n, c, t['elem']))

    def i_MakeChan(self, ctx, ins, st):
        self.setreg(ctx, ins, self.fresh_ref('chan'))

    def i_MakeClosure(self, ctx, ins, st):
        self.setreg(ctx, ins, ClosureV(ins['fn'], [self.val(ctx, b) for b in ins['bindings']]))

    def i_MakeInterface(self, ctx, ins, st):
        x = self.val(ctx, ins['x'])
        xt = ins['xtype']
        r = T.fresh('iface')
        self.add_hyp(T.lt(T.ZERO, r))
        self.add_hyp(T.eq(self.uf_dyn(r), T.I(self.ty.type_id(xt))))
        if isinstance(x, PtrV) and x.kind == 'field':
            xr = self.as_ref(x)
            self.add_hyp(T.eq(self.uf_pay(r), xr))
            self.iface_static[r] = (xt, xr)
        if is_term(x) and T.sort_of(x) == T.INT:
            self.add_hyp(T.eq(self.uf_pay(r), x))
            self.iface_static[r] = (xt, x)
        self.setreg(ctx, ins, r)

    def i_ChangeInterface(self, ctx, ins, st):
        self.setreg(ctx, ins, self.val(ctx, ins['x']))

    def i_ChangeType(self, ctx, ins, st):
        self.setreg(ctx, ins, self.val(ctx, ins['x']))

    def i_Convert(self, ctx, ins, st):
        x = self.val(ctx, ins['x'])
        ft, tt = ins['xtype'], ins['type']
        fr, tr = self.ty.int_range(ft), self.ty.int_range(tt)
        if fr is not None and tr is not None:
            if tr[0] <= fr[0] and fr[1] <= tr[1]:
                self.setreg(ctx, ins, x)
            else:
                self.setreg(ctx, ins, self.wrap_to(x, tt, force=True))
            return
        if self.ty.is_float(ft) or self.ty.is_float(tt):
            v = T.fresh('cvt')
            if tr is not None:
                self.add_hyp(T.and_(T.le(T.I(tr[0]), v), T.le(v, T.I(tr[1]))))
            self.setreg(ctx, ins, v)
            return
        if self.ty.is_string(tt) and isinstance(x, SliceV):
            r = T.fresh('str')
            self.add_hyp(T.eq(self.strlen(r), x.len))
            self.setreg(ctx, ins, r)
            return
        if self.ty.is_string(ft) and self.ty.kind(tt) == 'slice':
            n = self.strlen(x)
            self.setreg(ctx, ins, SliceV(self.fresh_ref('bytes'), T.ZERO, n, n, self.ty.elem(tt)))
            return
        if self.ty.is_string(tt) and is_term(x):
            self.setreg(ctx, ins, T.fresh('str'))
            return
        self.setreg(ctx, ins, x)

    def i_TypeAssert(self, ctx, ins, st):
        x = self.val(ctx, ins['x'])
        at = ins['asserted']
        if self.ty.kind(at) == 'interface':
            ok = T.and_(T.not_(T.eq(x, T.ZERO)), self.uf_implements(x, at))
            v = x
        else:
            ok = T.and_(T.not_(T.eq(x, T.ZERO)), T.eq(self.uf_dyn(x), T.I(self.ty.type_id(at))))
            lv = self.ty.leaves(at)
            if len(lv) == 1 and lv[0][1] == T.INT:
                v = self.uf_pay(x)
            else:
                v = self.ty.symbolic(at, 'asserted')
        if ins.get('commaok'):
            self.setreg(ctx, ins, TupleV([v, ok]))
        else:
            self.oblige('conv', ok, st, self.prog.srcline(ins['pos']), ins['pos'], fnname=self.cur_name(ctx))
            self.setreg(ctx, ins, v)

    def i_Extract(self, ctx, ins, st):
        x = self.val(ctx, ins['x'])
        if isinstance(x, TupleV):
            self.setreg(ctx, ins, x.items[ins['index']])
            return
        raise Unsupported('Extract from %r' % (x,))

    def i_Phi(self, ctx, ins, st):
        blk = ctx['cfg'].blocks[ctx['block']]
        preds = blk['preds']
        edge_pcs = ctx['edge_pcs']
        vals = []
        for p, e in zip(preds, ins['edges']):
            if p in edge_pcs:
                vals.append((edge_pcs[p], self.val(ctx, e)))
        if not vals:
            raise Unsupported('phi without incoming')
        r = vals[-1][1]
        for pc, v in reversed(vals[:-1]):
            r = T.ite(pc, v, r)
        self.setreg(ctx, ins, r)

    def i_Range(self, ctx, ins, st):
        x = self.val(ctx, ins['x'])
        if self.ty.kind(ins['xtype']) == 'map' and is_term(x):
            # ghost set of the keys this iteration has produced so far (visited(m, k) in invariants): empty at the start
            cid = ('rangevis', ctx['frame'], ins['id'])
            v0 = T.V('emptyset', T.AIB)
            if 'emptyset' not in self.facted:
                self.facted.add('emptyset')
                j = T.fresh_name('j')
                self.hyps.append(T.forall([(j, T.INT)], T.not_(T.select(v0, T.V(j)))))
            self.store(st, PtrV('cell', cid), v0)
            self.rangevis[cid] = x
            dom0 = T.select(self.heap_get(st, self.map_names(ins['xtype'])[0], T.ARR(T.INT, T.AIB)), x)
            self.setreg(ctx, ins, ('rangeiter', x, ins['xtype'], cid, dom0))
            return
        self.setreg(ctx, ins, ('rangeiter', x, ins['xtype']))

    def i_Next(self, ctx, ins, st):
        it = self.val(ctx, ins['iter'])
        ok = T.fresh('nextok', T.BOOL)
        if ins.get('isstring'):
            self.setreg(ctx, ins, TupleV([ok, T.fresh('stridx'), T.fresh('rune')]))
            return
        m, mt = it[1], it[2]
        un, t = self.ty.under(mt)
        k = T.fresh('mapkey')
        self.add_hyp(T.implies(ok, self.map_has(st, m, mt, k)))
        if len(it) >= 5 and it[3] in st.cells and is_term(st.cells[it[3]]):
            # every key is produced at most once; when the iteration ends every key of the (unchanged) map was produced
            vis = st.cells[it[3]]
            self.add_hyp(T.implies(T.and_(st.pc, ok), T.not_(T.select(vis, k))))
            dom = T.select(self.heap_get(st, self.map_names(mt)[0], T.ARR(T.INT, T.AIB)), m)
            if dom == it[4]:
                q = T.fresh_name('vk')
                self.add_hyp(T.implies(T.and_(st.pc, T.not_(ok)),
                                       T.forall([(q, T.INT)], T.implies(T.select(dom, T.V(q)), T.select(vis, T.V(q))))))
            self.store(st, PtrV('cell', it[3]), T.ite(ok, T.store(vis, k, T.TRUE), vis))
        v = self.map_lookup(st, m, mt, k)
        self.setreg(ctx, ins, TupleV([ok, k, v]))

    def i_Select(self, ctx, ins, st):
        n = len(ins['states'])
        idx = T.fresh('selidx')
        lo = 0 if ins['blocking'] else -1
        self.add_hyp(T.and_(T.le(T.I(lo), idx), T.lt(idx, T.I(n))))
        items = [idx, T.fresh('selok', T.BOOL)]
        for s_ in ins['states']:
            if s_['dir'] == 'recv':
                et = self.ty.elem(s_['chantype'])
                v = self.ty.symbolic(et, 'selrecv')
                self.assume_facts(v, et)
                items.append(v)
        k_ = 2
        for j, s_ in enumerate(ins['states']):
            if s_['dir'] == 'send':
                self.on_send(ctx, ins, st, self.val(ctx, s_['chan']), self.val(ctx, s_['send']), guard=T.eq(idx, T.I(j)))
            else:
                et = self.ty.elem(s_['chantype'])
                self.on_recv(ctx, st, self.val(ctx, s_['chan']), items[k_], et, items[1], T.eq(idx, T.I(j)),
                             alternatives=n - 1 + (0 if ins['blocking'] else 1), ins=ins)
                k_ += 1
        self.setreg(ctx, ins, TupleV(items))

    def i_Send(self, ctx, ins, st):
        self.on_send(ctx, ins, st, self.val(ctx, ins['chan']), self.val(ctx, ins['x']), guard=T.TRUE)

    def on_recv(self, ctx, st, ch, v, vt, okv, guard, alternatives=0, ins=None):
        """recv clause of the channel: ghost bookkeeping (modifies) + ASSUMED facts about what the channel carries
        (the senders' contracts).  `ok` is visible to the clauses (false = channel closed).  `requires` clauses are
        CHECKED where the receive is attempted; they may mention `alternatives`: the number of other ways out of the
        wait (other cases of the same select, +1 for a default): 0 for a plain blocking receive."""
        rs = self.chanspec(self.recvspecs, ctx, st, ch)
        if rs is None:
            return
        from .exec_expr import Env
        argn = (rs.args or ['m'])[0]
        names = dict(self.base_names)
        names[argn] = (v, vt)
        names['ok'] = (okv, None)
        cn = self.cellnames_for(ctx, ctx.get('block'))
        if rs.requires:
            nm2 = dict(self.base_names)
            nm2['alternatives'] = (T.I(alternatives), 'int')
            envr = Env(nm2, st, self.entry_state, cn, self.pkg, prefer_cells=True)
            for c in rs.requires:
                try:
                    self.oblige('pre', self.eval_bool(c.parse(), envr), st, 'receive from %s: %s' % (rs.name, c.text),
                                (ins or {}).get('pos') or c.src, clause=c, slug='recv-%s-%s' % (re.sub(r'[^A-Za-z0-9_.]', '-', rs.name)[:30], c.slug()),
                                fnname=self.cur_name(ctx))
                except Unsupported as e:
                    self.elab_fail('recv clause %r: %s' % (c.text, e), c)

        def apply(s_):
            pre = s_.copy()
            if rs.modifies:
                self.havoc_locs(rs.modifies, Env(names, s_, self.entry_state, cn, self.pkg), s_)
            env = Env(names, s_, pre, cn, self.pkg)
            for c in rs.ensures:
                try:
                    self.add_hyp(T.implies(s_.pc, self.eval_bool(c.parse(), env)))
                except Unsupported as e:
                    self.elab_fail('recv clause %r: %s' % (c.text, e))
        if guard == T.TRUE:
            apply(st)
        else:
            s1 = st.copy()
            s1.pc = T.and_(st.pc, guard)
            apply(s1)
            s2 = st.copy()
            s2.pc = T.and_(st.pc, T.not_(guard))
            m, _ = self.merge([(0, s1), (1, s2)])
            st.pc, st.cells, st.heap, st.volatile = m.pc, m.cells, m.heap, m.volatile
        self.assumed_used.add('channel contents %s in %s (the senders\' send contracts)' % (rs.name, self.oname))

    def on_send(self, ctx, ins, st, ch, v, guard):
        ps = self.chanspec(self.chanspecs, ctx, st, ch)
        if ps is None:
            return
        et = None
        argn = (ps.args or ['v'])[0]
        # element type of the channel: from the instruction
        if ins['op'] == 'Send':
            ct = None
        names = {argn: (v, self.chan_elem_type(ctx, ins, ch))}
        if guard == T.TRUE or 'on-offer' in ps.flags:
            # `flag on-offer`: the clauses describe the OFFER of a value in a select (checked and counted whether or
            # not this case is the one that fires)
            self.apply_contract_env(ctx, ins, st, ps, names, [], [], ps.name)
        else:
            s1 = st.copy()
            s1.pc = T.and_(st.pc, guard)
            self.apply_contract_env(ctx, ins, s1, ps, names, [], [], ps.name)
            s2 = st.copy()
            s2.pc = T.and_(st.pc, T.not_(guard))
            m, _ = self.merge([(0, s1), (1, s2)])
            st.pc, st.cells, st.heap, st.volatile = m.pc, m.cells, m.heap, m.volatile

    def chan_elem_type(self, ctx, ins, ch):
        if ins['op'] == 'Send':
            # type of the channel operand is not carried on Send; find the defining instruction's type
            op = ins['chan']
            t = self.operand_type(ctx, op)
            return self.ty.elem(t) if t else None
        for s_ in ins.get('states', []):
            if s_['dir'] == 'send':
                return self.ty.elem(s_['chantype'])
        return None

    def operand_type(self, ctx, op):
        if isinstance(op, str):
            for b in ctx['fn']['blocks']:
                for i2 in b['instrs']:
                    if i2.get('id') == op:
                        return i2.get('type')
        if isinstance(op, dict):
            if 'p' in op:
                for p in ctx['fn']['params']:
                    if p['name'] == op['p']:
                        return p['type']
            return op.get('t')
        return None

    def i_Defer(self, ctx, ins, st):
        call = ins['call']
        fv = self.callee_value(ctx, call)
        args = [self.val(ctx, a) for a in call['args']]
        flag = ('deferflag', ctx['frame'], ins.get('pos'), len(st.defers))
        st.cells[flag] = T.TRUE
        st.defers = st.defers + ((call, fv, args, flag, ins),)

    def i_RunDefers(self, ctx, ins, st):
        for call, fv, args, flag, dins in reversed(st.defers):
            fl = st.cells.get(flag, T.FALSE)
            if fl == T.FALSE:
                continue
            if fl == T.TRUE:
                self.do_call(ctx, dins, st, call, fv, args, want_result=False)
            else:
                s1 = st.copy()
                s1.pc = T.and_(st.pc, fl)
                self.do_call(ctx, dins, s1, call, fv, args, want_result=False)
                s2 = st.copy()
                s2.pc = T.and_(st.pc, T.not_(fl))
                m, _ = self.merge([(0, s1), (1, s2)])
                st.pc, st.cells, st.heap, st.volatile = m.pc, m.cells, m.heap, m.volatile
        st.defers = ()

    def i_Go(self, ctx, ins, st):
        call = ins['call']
        fv = self.callee_value(ctx, call)
        args = [self.val(ctx, a) for a in call['args']]
        self.on_go(ctx, ins, st, call, fv, args)

    def i_Call(self, ctx, ins, st):
        call = ins['call']
        if call['mode'] == 'builtin':
            self.builtin(ctx, ins, st, call)
            return
        fv = self.callee_value(ctx, call)
        args = [self.val(ctx, a) for a in call['args']]
        r = self.do_call(ctx, ins, st, call, fv, args, want_result=True)
        self.setreg(ctx, ins, r)

    def i_DebugRef(self, ctx, ins, st):
        pass

    def i_SliceToArrayPointer(self, ctx, ins, st):
        raise Unsupported('SliceToArrayPointer')

    def i_MultiConvert(self, ctx, ins, st):
        raise Unsupported('MultiConvert')
