"""Replay drivers: turn a solver model into a run of the real function (DESIGN §3.6)."""
DRIVERS = {}
