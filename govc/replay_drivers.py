"""Replay drivers: turn a solver model into a run of the real function (DESIGN §0.7, §3.6).

One generic driver exists: for a package-level function (no receiver, no captured variables) whose parameters and
results are all integers or booleans, the model's parameter values are passed to the REAL function in a test injected
with `go test -overlay` (nothing is written into the repository):

  * safety obligations (bounds, div0, make, conv, panic): the violation is confirmed when the call panics;
  * postconditions: the clause is translated to Go (params = entry values, result/r0.. = what the call returned;
    non-recursive spec functions of specs/wharf.spec are translated as Go functions) and the violation is confirmed
    when it evaluates to false on the real result.

Anything else (slices, pointers, interfaces, loops' intermediate states) has no driver: the VIOLATION line then ends
`no-failing-input-found` and the replay file carries the solver's model and output."""
import re

from .cparse import parse_expr, ParseError

INT_TYPES = {'int': (-(1 << 63), (1 << 63) - 1), 'int64': (-(1 << 63), (1 << 63) - 1), 'int32': (-(1 << 31), (1 << 31) - 1),
             'int16': (-(1 << 15), (1 << 15) - 1), 'int8': (-128, 127), 'uint': (0, (1 << 64) - 1), 'uint64': (0, (1 << 64) - 1),
             'uint32': (0, (1 << 32) - 1), 'uint16': (0, (1 << 16) - 1), 'uint8': (0, 255), 'byte': (0, 255)}


class NoTranslation(Exception):
    pass


class GoExpr:
    """clause AST -> Go source over int64 / bool."""

    def __init__(self, names, specs):
        self.names = names          # contract name -> Go expression (int64 or bool)
        self.specs = specs
        self.helpers = {}

    def tr(self, a):
        k = a[0]
        if k == 'num':
            return 'int64(%d)' % a[1]
        if k == 'bool':
            return 'true' if a[1] else 'false'
        if k == 'name':
            if a[1] in self.names:
                return self.names[a[1]]
            c = self.specs.consts.get(a[1]) if self.specs is not None else None
            if c is not None:
                return self.tr(c)
            raise NoTranslation('name %s' % a[1])
        if k == 'un':
            if a[1] == '!':
                return '(!%s)' % self.tr(a[2])
            if a[1] == '-':
                return '(-%s)' % self.tr(a[2])
            raise NoTranslation('unary %s' % a[1])
        if k == 'bin':
            op, x, y = a[1], self.tr(a[2]), self.tr(a[3])
            if op == '==>':
                return '(!%s || %s)' % (x, y)
            if op == '<==>':
                return '(%s == %s)' % (x, y)
            if op in ('&&', '||', '==', '!=', '<', '<=', '>', '>=', '+', '-', '*'):
                return '(%s %s %s)' % (x, op, y)
            if op == '/':
                return 'goDiv(%s, %s)' % (x, y)
            if op == '%':
                return 'goMod(%s, %s)' % (x, y)
            if op == '<<':
                return '(%s << uint(%s))' % (x, y)
            if op == '>>':
                return '(%s >> uint(%s))' % (x, y)
            raise NoTranslation('operator %s' % op)
        if k == 'cond':
            return 'ite64(%s, %s, %s)' % (self.tr(a[1]), self.tr(a[2]), self.tr(a[3]))
        if k == 'call':
            fn, args = a[1], a[2]
            if fn == 'old' and len(args) == 1:
                return self.tr(args[0])
            if fn in ('min', 'max', 'emod', 'ediv') and len(args) == 2:
                return 'spec_%s(%s, %s)' % (fn, self.tr(args[0]), self.tr(args[1]))
            sf = self.specs.funcs_spec.get(fn) if self.specs is not None and hasattr(self.specs, 'funcs_spec') else None
            if sf is None and self.specs is not None:
                sf = getattr(self.specs, 'specfuncs', {}).get(fn)
            if sf is not None and not getattr(sf, 'rec', False) and sf.parse() is not None:
                self.helper(fn, sf)
                return 'spec_%s(%s)' % (fn, ', '.join(self.tr(x) for x in args))
            raise NoTranslation('call %s' % fn)
        raise NoTranslation('form %s' % k)

    def helper(self, fn, sf):
        if fn in self.helpers:
            return
        self.helpers[fn] = None
        params = [p[0] if isinstance(p, (tuple, list)) else p for p in sf.params]
        sorts = [p[1] if isinstance(p, (tuple, list)) else 'int' for p in sf.params]
        if any(s_ not in ('int', 'bool') for s_ in sorts):
            raise NoTranslation('spec function %s has non-scalar parameters' % fn)
        sub = GoExpr({p: p for p in params}, self.specs)
        sub.helpers = self.helpers
        body = sub.tr(sf.parse())
        res = 'bool' if getattr(sf, 'sort', 'int') == 'bool' else 'int64'
        self.helpers[fn] = 'func spec_%s(%s) %s { return %s }' % (
            fn, ', '.join('%s %s' % (p, 'bool' if s_ == 'bool' else 'int64') for p, s_ in zip(params, sorts)), res, body)


PRELUDE = '''
func ite64(c bool, a, b int64) int64 { if c { return a }; return b }
func goDiv(a, b int64) int64 { return a / b }
func goMod(a, b int64) int64 { return a % b }
func spec_min(a, b int64) int64 { if a < b { return a }; return b }
func spec_max(a, b int64) int64 { if a > b { return a }; return b }
func spec_emod(a, b int64) int64 { r := a % b; if r < 0 { if b < 0 { r -= b } else { r += b } }; return r }
func spec_ediv(a, b int64) int64 { return (a - spec_emod(a, b)) / b }
'''


def scalar_driver(run, ob, model, doc):
    fn = run.fn
    if fn.get('freevars') or fn.get('recv') or fn['name'].startswith('('):
        return False, 'no replay driver for %s (not a package-level function)' % fn['name']
    ty = run.ty
    args = []
    names = {}
    for p in fn['params']:
        t = p['type'].rsplit('.', 1)[-1]
        un = ty.under(p['type'])[1]
        base = un.get('name') or t
        if un.get('kind') != 'basic' or (base not in INT_TYPES and not un.get('boolean')):
            return False, 'no replay driver for %s (parameter %s is not a scalar)' % (fn['name'], p['name'])
        val = None
        for k, v in model.items():
            if re.match(r'^%s!\d+$' % re.escape(p['name']), k):
                val = v
        if val is None:
            val = False if un.get('boolean') else 0
        if un.get('boolean'):
            args.append('true' if val else 'false')
            names[p['name']] = args[-1]
        else:
            lo, hi = INT_TYPES[base]
            if not (lo <= val <= hi):
                return False, 'model value %s = %d is outside %s: a counterexample of the mathematical-integer reading only' % (p['name'], val, base)
            args.append('%s(%d)' % (p['type'].rsplit('/', 1)[-1].split('.', 1)[-1] if '.' in p['type'] else p['type'], val))
            names[p['name']] = 'int64(%d)' % val
    results = fn['results']
    for r in results:
        un = ty.under(r['type'])[1]
        if un.get('kind') != 'basic':
            return False, 'no replay driver for %s (result is not a scalar)' % fn['name']
    pkg_path, short = run.prog.short(fn['name'])
    pkgdir = pkg_path.replace('github.com/itchio/wharf', '').strip('/') or '.'
    pkgname = run.prog.pkgname(pkg_path) if hasattr(run.prog, 'pkgname') else pkg_path.rsplit('/', 1)[-1]
    rvars = ['r%d' % i for i in range(len(results))]
    for i, r in enumerate(results):
        un = ty.under(r['type'])[1]
        g = rvars[i] if un.get('boolean') else 'int64(%s)' % rvars[i]
        names['r%d' % i] = g
        if r.get('name'):
            names[r['name']] = g
    if len(results) == 1:
        names['result'] = names['r0']
    check = ''
    helpers = ''
    expect = 'panic'
    if ob.kind in ('post', 'assert'):
        spec = run.specs
        gx = GoExpr(names, spec)
        try:
            clause = ob.clause.parse() if getattr(ob, 'clause', None) is not None else parse_expr(re.sub(r'^@\S+\s+', '', ob.text))
            cond = gx.tr(clause)
        except (NoTranslation, ParseError, Exception) as e:
            return False, 'postcondition not translatable to Go (%s)' % e
        helpers = '\n'.join(h for h in gx.helpers.values() if h)
        check = '\tif !(%s) { t.Fatalf("VERIF-REPLAY-CONFIRMED: postcondition false on the real result: %%v", []interface{}{%s}) }\n' % (
            cond, ', '.join(rvars))
        expect = 'post'
    elif ob.kind not in ('bounds', 'div0', 'make', 'conv', 'panic'):
        return False, 'no replay for obligations of kind %s (an intermediate state, not an input)' % ob.kind
    call = '%s(%s)' % (short, ', '.join(args))
    assign = (', '.join(rvars) + ' := ') if rvars else ''
    use = ''.join('\t_ = %s\n' % v for v in rvars)
    test = '''package %s

import "testing"
%s
%s
func TestVerifReplay(t *testing.T) {
	defer func() {
		if r := recover(); r != nil {
			t.Fatalf("VERIF-REPLAY-CONFIRMED: panic: %%v", r)
		}
	}()
	%s%s
%s%s}
''' % (pkgname, PRELUDE, helpers, assign, call, use, check)
    from .replay import run_overlay_test
    repo = getattr(run.prog, 'root', None) or doc.get('repo') or '/repo'
    rc, out = run_overlay_test(repo, pkgdir, test, '^TestVerifReplay$')
    doc['replay_test'] = test
    doc['replay_pkgdir'] = pkgdir
    doc['replay_run'] = '^TestVerifReplay$'
    doc['repo'] = repo
    doc['replay_output'] = out[-3000:]
    if 'VERIF-REPLAY-CONFIRMED' in out:
        return True, 'replayed on the real code: %s with %s -> %s' % (short, ', '.join(args), 'panic' if 'panic:' in out else 'postcondition false')
    if rc != 0:
        return False, 'replay test did not run (rc=%d): %s' % (rc, out[-300:].replace('\n', ' '))
    return False, 'the real function does not fail on the model\'s input (%s): the model is not a real counterexample, or the failing state is not reachable through the parameters' % ', '.join(args)


class _Drivers(dict):
    def get(self, name, default=None):
        return dict.get(self, name) or scalar_driver


DRIVERS = _Drivers()
