"""Loading of gossa output; CFG utilities (loops, orders); type helpers."""
import json
import os
import subprocess

GOSSA = os.path.join(os.path.dirname(os.path.dirname(os.path.abspath(__file__))), 'bin', 'gossa')
MOD = 'github.com/itchio/wharf'


class Program:
    def __init__(self, doc):
        self.doc = doc
        self.types = doc['types']
        self.packages = doc['packages']
        self.funcs = {}
        self.consts = {}
        for pp, pk in self.packages.items():
            for f in pk['funcs']:
                f['pkg'] = pp
                self.funcs[f['name']] = f
            for n, c in pk['consts'].items():
                self.consts[(pp, n)] = c
        self.root = doc.get('root', '/repo')
        self._src = {}

    # ---- names
    def short(self, full):
        """'(*github.com/itchio/wharf/pwr/drip.Writer).Write' -> ('github.com/itchio/wharf/pwr/drip', '(*Writer).Write')"""
        f = self.funcs.get(full)
        pkg = f['pkg'] if f else None
        if pkg is None:
            # guess
            s = full.lstrip('(*')
            pkg = s.rsplit('.', 1)[0] if '/' in s else s.split('.')[0]
            for pp in sorted(self.packages, key=len, reverse=True):
                if (pp + '.') in full:
                    pkg = pp
                    break
        return pkg, full.replace(pkg + '.', '')

    def find(self, pkg, short):
        for f in self.packages[pkg]['funcs']:
            if f['name'].replace(pkg + '.', '') == short:
                return f
        return None

    # ---- types
    def T(self, name):
        return self.types.get(name) or {'kind': 'other'}

    def under(self, name):
        t = self.T(name)
        seen = 0
        while t.get('kind') == 'named' and seen < 20:
            name = t['underlying']
            t = self.T(name)
            seen += 1
        return name, t

    def kind(self, name):
        return self.under(name)[1].get('kind')

    def srcline(self, pos):
        if not pos:
            return ''
        parts = pos.split(':')
        path = os.path.join(self.root, parts[0])
        if path not in self._src:
            try:
                self._src[path] = open(path, encoding='utf-8').read().split('\n')
            except Exception:
                self._src[path] = []
        ln = int(parts[1])
        lines = self._src[path]
        return lines[ln - 1].strip() if 0 < ln <= len(lines) else ''


def load(repo='/repo', patterns=('./...',), out=None):
    cmd = [GOSSA, '-dir', repo] + list(patterns)
    env = dict(os.environ)
    env['GOFLAGS'] = '-mod=mod'
    env['GOPROXY'] = 'off'
    env.pop('GOSUMDB', None)
    env.pop('GOTOOLCHAIN', None)
    p = subprocess.run(cmd, stdout=subprocess.PIPE, stderr=subprocess.PIPE, env=env)
    if p.returncode != 0:
        raise RuntimeError('gossa failed:\n' + p.stderr.decode()[-4000:])
    text = p.stdout.decode()
    doc = json.loads(text)
    prog = Program(doc)
    if not os.environ.get('VERIF_NO_ALIGN'):
        # function literals keep the ordinal they had when the contracts were written (see baseline.closure_renames)
        from .baseline import closure_renames, function_renames
        fren = function_renames(prog.funcs)
        if fren:
            import re
            keys = sorted(fren, key=len, reverse=True)
            pat = re.compile('(' + '|'.join(re.escape(k) for k in keys) + r')(?![A-Za-z0-9_])')
            text = pat.sub(lambda m: fren[m.group(1)], text)
            prog = Program(json.loads(text))
            prog.function_renames = fren
        ren = closure_renames(prog.funcs)
        if ren:
            import re
            keys = sorted(ren, key=len, reverse=True)
            pat = re.compile('(' + '|'.join(re.escape(k) for k in keys) + r')(?![0-9])')
            text = pat.sub(lambda m: ren[m.group(1)], text)
            fr_ = getattr(prog, 'function_renames', None)
            prog = Program(json.loads(text))
            prog.closure_renames = ren
            if fr_:
                prog.function_renames = fr_
        from .baseline import apply_field_renames
        prog.field_renames = apply_field_renames(prog)
    return prog


# ---------------------------------------------------------------- CFG

class CFG:
    def __init__(self, fn):
        self.fn = fn
        self.blocks = {b['idx']: b for b in fn['blocks']}
        self.n = len(fn['blocks'])
        self.succs = {i: list(b['succs']) for i, b in self.blocks.items()}
        self.preds = {i: list(b['preds']) for i, b in self.blocks.items()}
        rec = fn.get('recover')
        self.reach = self._reachable(0)
        self.idom = self._dominators()
        self.back = set()      # (src, dst)
        for s in self.reach:
            for d in self.succs[s]:
                if self.dominates(d, s):
                    self.back.add((s, d))
        self.loops = {}        # header -> set(blocks)
        for s, h in self.back:
            body = self.loops.setdefault(h, {h})
            stack = [s]
            while stack:
                x = stack.pop()
                if x in body:
                    continue
                body.add(x)
                stack.extend(p for p in self.preds[x] if p in self.reach)
        self.order = self._rpo()
        # loop ordinals by source position of header's first positioned instruction (fallback: block idx)
        hs = sorted(self.loops, key=lambda h: (self._pos_key(h), h))
        self.loop_no = {h: i + 1 for i, h in enumerate(hs)}

    def _pos_key(self, h):
        best = None
        for b in sorted(self.loops[h]):
            for ins in self.blocks[b]['instrs']:
                p = ins.get('pos')
                if p:
                    parts = p.split(':')
                    k = (parts[0], int(parts[1]), int(parts[2]))
                    if best is None or k < best:
                        best = k
        return best or ('', 1 << 30, 0)

    def _reachable(self, start):
        seen = set()
        stack = [start]
        while stack:
            x = stack.pop()
            if x in seen:
                continue
            seen.add(x)
            stack.extend(self.succs[x])
        return seen

    def _dominators(self):
        # simple iterative algorithm
        order = []
        seen = set()

        def dfs(x):
            seen.add(x)
            for s in self.succs[x]:
                if s not in seen:
                    dfs(s)
            order.append(x)
        import sys
        sys.setrecursionlimit(10000)
        dfs(0)
        rpo = list(reversed(order))
        idx = {b: i for i, b in enumerate(rpo)}
        idom = {0: 0}
        changed = True
        while changed:
            changed = False
            for b in rpo[1:]:
                ps = [p for p in self.preds[b] if p in idom]
                if not ps:
                    continue
                new = ps[0]
                for p in ps[1:]:
                    a, c = p, new
                    while a != c:
                        while idx[a] > idx[c]:
                            a = idom[a]
                        while idx[c] > idx[a]:
                            c = idom[c]
                    new = a
                if idom.get(b) != new:
                    idom[b] = new
                    changed = True
        return idom

    def dominates(self, a, b):
        while True:
            if a == b:
                return True
            if b == 0 or b not in self.idom:
                return False
            nb = self.idom[b]
            if nb == b:
                return False
            b = nb

    def _rpo(self):
        seen = set()
        order = []

        def dfs(x):
            seen.add(x)
            for s in self.succs[x]:
                if (x, s) in self.back:
                    continue
                if s not in seen:
                    dfs(s)
            order.append(x)
        dfs(0)
        return list(reversed(order))

    def loop_exits(self, h):
        body = self.loops[h]
        out = []
        for b in body:
            for s in self.succs[b]:
                if s not in body:
                    out.append((b, s))
        return out
