"""Symbolic state and obligations."""
from . import terms as T
from .values import SliceV, StructV, TupleV, PtrV, ClosureV, is_term, Unsupported


class State:
    __slots__ = ('pc', 'cells', 'heap', 'volatile', 'defers', 'dead')

    def __init__(self, pc=T.TRUE):
        self.pc = pc
        self.cells = {}
        self.heap = {}
        self.volatile = frozenset()
        self.defers = ()
        self.dead = False

    def copy(self):
        s = State(self.pc)
        s.cells = dict(self.cells)
        s.heap = dict(self.heap)
        s.volatile = self.volatile
        s.defers = self.defers
        return s


class Obligation:
    def __init__(self, name, kind, fn, text, pos, nhyps, goal, prop_tags=(), report_only=False, expect_sat=False,
                 definitive=True):
        self.name = name
        self.kind = kind
        self.fn = fn
        self.text = text
        self.pos = pos
        self.nhyps = nhyps
        self.goal = goal
        self.report_only = report_only
        self.expect_sat = expect_sat
        self.result = None
        self.model_vars = {}
        self.hyps = None
        self.clause = None
        self.bounded = None


def map_leaves(f, a, b):
    """apply f(term_a, term_b) on every scalar leaf of two same-shaped values."""
    if is_term(a) and is_term(b):
        return f(a, b)
    if isinstance(a, SliceV) and isinstance(b, SliceV):
        return SliceV(f(a.base, b.base), f(a.off, b.off), f(a.len, b.len), f(a.cap, b.cap), a.elem, a.is_array)
    if isinstance(a, StructV) and isinstance(b, StructV):
        return StructV(a.tname, {k: map_leaves(f, a.fields[k], b.fields[k]) for k in a.fields})
    if isinstance(a, TupleV) and isinstance(b, TupleV):
        return TupleV([map_leaves(f, x, y) for x, y in zip(a.items, b.items)])
    if isinstance(a, PtrV) and isinstance(b, PtrV) and a.key() == b.key():
        return a
    if isinstance(a, ClosureV) and isinstance(b, ClosureV) and a.fn == b.fn and len(a.bindings) == len(b.bindings):
        return a
    if a is b:
        return a
    raise Unsupported('cannot merge values %r / %r' % (a, b))


def value_leaves(v, out=None):
    if out is None:
        out = []
    if is_term(v):
        out.append(v)
    elif isinstance(v, SliceV):
        out.extend([v.base, v.off, v.len, v.cap])
    elif isinstance(v, StructV):
        for x in v.fields.values():
            value_leaves(x, out)
    elif isinstance(v, TupleV):
        for x in v.items:
            value_leaves(x, out)
    return out


def same_value(a, b):
    if is_term(a) or is_term(b):
        return a == b
    if isinstance(a, SliceV) and isinstance(b, SliceV):
        return a.base == b.base and a.off == b.off and a.len == b.len and a.cap == b.cap
    if isinstance(a, StructV) and isinstance(b, StructV):
        return all(same_value(a.fields[k], b.fields[k]) for k in a.fields)
    if isinstance(a, TupleV) and isinstance(b, TupleV):
        return all(same_value(x, y) for x, y in zip(a.items, b.items))
    if isinstance(a, PtrV) and isinstance(b, PtrV):
        return a.key() == b.key()
    return a is b


def fresh_like(v, prefix):
    if is_term(v):
        return T.fresh(prefix, T.sort_of(v))
    if isinstance(v, SliceV):
        return SliceV(T.fresh(prefix + '.base'), T.fresh(prefix + '.off'), T.fresh(prefix + '.len'), T.fresh(prefix + '.cap'),
                      v.elem, v.is_array)
    if isinstance(v, StructV):
        return StructV(v.tname, {k: fresh_like(x, prefix + '.' + k) for k, x in v.fields.items()})
    if isinstance(v, TupleV):
        return TupleV([fresh_like(x, prefix + '.%d' % i) for i, x in enumerate(v.items)])
    return v
