"""Calls: builtins, contracts, inlining, unknown callees, goroutines; top-level run (mixin of FuncRun)."""
import re

from . import terms as T
from .state import State, fresh_like, same_value
from .values import SliceV, StructV, TupleV, PtrV, ClosureV, SeqV, Unsupported, is_term
from .exec_expr import Env, SORTS
from .cparse import parse_expr, ParseError

# callees assumed pure (no effect on modelled state) and total; listed in evidence as trusted
PURE_PKGS = ('github.com/itchio/savior', 'fmt', 'errors', 'github.com/pkg/errors', 'strings', 'path', 'path/filepath', 'math', 'time', 'strconv',
             'unicode', 'unicode/utf8', 'math/bits', 'runtime', 'log', 'github.com/itchio/headway/united',
             'github.com/itchio/headway/state', 'github.com/itchio/headway/counter', 'reflect', 'sync', 'sync/atomic',
             'github.com/itchio/wharf/werrors', 'context')
PURE_METHOD_RECV = ('github.com/itchio/headway/state.Consumer', 'sync.Mutex', 'sync.RWMutex', 'sync.WaitGroup',
                    'time.Time', 'time.Duration', 'context.Context', 'error', 'fmt.Stringer',
                    'github.com/itchio/headway/counter.')
PURE_FUNCS = ('os.IsNotExist', 'os.IsExist', 'os.IsPermission', 'io.LimitReader', 'bytes.Equal', 'bytes.Compare',
              'bytes.NewReader', 'bytes.NewBuffer', 'bufio.NewReader', 'bufio.NewWriter', 'bufio.NewWriterSize',
              'bufio.NewReaderSize', 'bufio.NewScanner', 'os.Getenv', 'encoding/binary.PutUvarint', 'crypto/md5.New')


def split_conj(ast):
    if isinstance(ast, tuple) and ast and ast[0] == 'bin' and ast[1] == '&&':
        return split_conj(ast[2]) + split_conj(ast[3])
    return [ast]


def ast_names(ast):
    out = set()
    if isinstance(ast, tuple):
        if ast and ast[0] == 'name' and len(ast) > 1 and isinstance(ast[1], str):
            out.add(ast[1])
        for a in ast[1:]:
            out |= ast_names(a)
    elif isinstance(ast, list):
        for a in ast:
            out |= ast_names(a)
    return out


class CallMixin:

    # ------------------------------------------------------------ callee resolution
    def callee_value(self, ctx, call):
        mode = call['mode']
        if mode == 'invoke':
            return ('invoke', self.val(ctx, call['recv']), call['iface'], call['method'])
        if mode == 'static':
            return ClosureV(call['callee'], [])
        return self.val(ctx, call['value'])

    def find_func_spec(self, fullname):
        f = self.prog.funcs.get(fullname)
        if f is not None:
            pk, short = self.prog.short(fullname)
            return self.specs.funcs.get((pk, short))
        # external: key by (pkg path, name) given in deps.spec as  pkg::Name
        for (pk, nm), sp in self.specs.funcs.items():
            if pk and fullname in (pk + '.' + nm, '(*%s.%s).%s' % (pk, nm.split('.')[0].strip('(*)'), nm.split('.')[-1])
                                   if '.' in nm else ''):
                return sp
            if pk and ('(*' + pk + '.' + nm.replace('(*', '').replace(')', '', 1)) == fullname:
                return sp
        return None

    def is_pure(self, fullname, call):
        if fullname in self.specs.pure:
            return True
        for p in self.specs.pure:
            if fullname.endswith('/' + p) or fullname.replace('(*', '').replace(')', '').endswith('/' + p.replace('(*', '').replace(')', '')):
                return True
        name = fullname
        m = re.match(r'^\(\*?([^)]+)\)\.(\w+)$', name)
        if m:
            recv = m.group(1)
            for p in PURE_METHOD_RECV:
                if recv.startswith(p):
                    return True
            pk = recv.rsplit('.', 1)[0]
        else:
            pk = name.rsplit('.', 1)[0]
        if pk in PURE_PKGS:
            return True
        if name in PURE_FUNCS:
            return True
        return False

    def is_pure_invoke(self, iface, method):
        key = iface + '.' + method
        if key in self.specs.pure:
            return True
        for p in self.specs.pure:
            if key.endswith('/' + p) or key == p:
                return True
        for p in PURE_METHOD_RECV:
            if iface.startswith(p):
                return True
        if method in ('Error', 'String') and iface in ('error', 'fmt.Stringer'):
            return True
        return False

    # ------------------------------------------------------------ the call
    def do_call(self, ctx, ins, st, call, fv, args, want_result=True):
        if not self.mute:
            is_forkcall = (isinstance(fv, ClosureV) and self.spec is not None and self.spec.forks
                           and any(fv.fn.endswith(f.strip()) for f in self.spec.forks))
            for a in args:
                # a function literal handed to another function (a callback): may later be called from any task
                if isinstance(a, ClosureV) and not is_forkcall and a not in self.escaped_closures:
                    self.escaped_closures.append(a)
        rtype = ins.get('type') if ins['op'] == 'Call' else None
        sig_results = None
        un, sig = self.ty.under(call['sig']) if call.get('sig') else (None, {})
        res_types = sig.get('results', []) if sig.get('kind') == 'signature' else []
        if isinstance(fv, tuple) and fv and fv[0] == 'invoke':
            _, recv, iface, method = fv
            ps = self.ifacespecs.get((recv, method)) if is_term(recv) else None
            if ps is None and is_term(recv) and self.spec is not None:
                # by the expression currently holding the receiver (a local variable, or a field re-read after a havoc)
                env_ = Env(dict(self.base_names), st, self.entry_state, self.cellnames_for(ctx, ctx.get('block')), self.pkg, prefer_cells=True)
                for path, ps_ in self.spec.params.items():
                    if not path.endswith('.' + method):
                        continue
                    try:
                        rv_, rt_ = self.eval(parse_expr(path[:-len(method) - 1]), env_)
                    except (Unsupported, ParseError):
                        continue
                    if is_term(rv_) and rv_ == recv:
                        ps = ps_
                        break
            if ps is not None:
                return self.apply_param_contract(ctx, ins, st, ps, args, res_types)
            if is_term(recv) and recv in self.iface_static:
                # the dynamic type is known: call the concrete method (its contract, or its body)
                ptn, px = self.iface_static[recv]
                cname = '(%s).%s' % (ptn, method)
                cfn = self.prog.funcs.get(cname)
                if cfn is not None:
                    cspec = self.find_func_spec(cname)
                    if cspec is not None and (cspec.requires or cspec.ensures or cspec.trusted or cspec.modifies is not None):
                        return self.apply_func_contract(ctx, ins, st, cspec, cfn, ClosureV(cname, []), [px] + args, res_types, cname)
            spec = self.find_iface_spec(iface, method)
            if spec is not None:
                return self.apply_contract(ctx, ins, st, spec, recv, iface, args, res_types, iface.rsplit('/', 1)[-1] + '.' + method)
            if self.is_pure_invoke(iface, method):
                self.pure_used.add(iface + '.' + method)
                return self.fresh_results(res_types, method)
            return self.unknown_call(ctx, ins, st, iface + '.' + method, [recv] + args, res_types)
        if isinstance(fv, tuple) and fv and fv[0] == 'builtin':
            raise Unsupported('builtin as value')
        if isinstance(fv, ClosureV):
            name = fv.fn
            fn = self.prog.funcs.get(name)
            spec = self.find_func_spec(name)
            caller_inline = ctx['spec'].inline if ctx['spec'] is not None else set()
            top_inline = self.spec.inline if self.spec is not None else set()
            short = self.prog.short(name)[1] if fn else name
            want_inline = short in caller_inline or short in top_inline
            if self.spec is not None and self.spec.forks and any(name.endswith(f.strip()) for f in self.spec.forks):
                # a fork/join combinator (taskgroup.Do): its function-literal arguments run in parallel
                tasks = [a for a in args if isinstance(a, ClosureV)]
                for a in args:
                    if isinstance(a, SliceV):
                        tasks += [cl for (b_, i_), cl in self.closure_slots.items() if b_ == a.base]
                self.record_fork(ctx, ins, st, tasks, False)
            # in-context contract of an external callee (an assumption, listed): `call <callee>:` in the caller's contract
            for sp_ in (ctx['spec'], self.spec):
                if sp_ is not None and getattr(sp_, 'calls', None):
                    nn = name.replace('(*', '').replace(')', '')
                    for cname, cs in sp_.calls.items():
                        cn_ = cname.replace('(*', '').replace(')', '')
                        if nn == cn_ or (nn.endswith(cn_) and nn[-len(cn_) - 1] in '/.'):
                            self.assumed_used.add('in-context contract of %s in %s' % (cname, self.oname))
                            args_, ptypes_ = self.realign_args(name, fn, args)
                            return self.apply_param_contract(ctx, ins, st, cs, args_, res_types, ptypes=ptypes_)
            if spec is not None and (spec.requires or spec.ensures or spec.trusted or spec.modifies is not None
                                     or spec.assumed) and not want_inline:
                return self.apply_func_contract(ctx, ins, st, spec, fn, fv, args, res_types, name)
            if fn is not None:
                is_lit = bool(fn.get('parent'))
                small = sum(len(b['instrs']) for b in fn['blocks']) <= 60 and not self.cfg(fn).loops
                if (is_lit or want_inline or small) and name not in self.call_stack:
                    return self.inline_call(ctx, ins, st, fn, fv, args, spec)
                return self.unknown_call(ctx, ins, st, name, args, res_types, wharf=True)
            mreset = re.match(r'^\(\*(github\.com/itchio/wharf/[\w/]+\.\w+)\)\.Reset$', name)
            if fn is None and mreset and args and is_term(args[0]) and self.ty.kind(mreset.group(1)) == 'struct':
                # generated protobuf Reset(): *x = T{} (the generated code is not extracted; this is its documented meaning)
                stn = mreset.group(1)
                z = self.ty.zero(stn, self.fresh_ref)
                for fname, ftype in self.ty.struct_fields(stn):
                    self.store(st, PtrV('field', args[0], stn, None, (fname,)), z.fields[fname])
                self.pure_used.add(name + ' (modelled as *x = T{})')
                return None
            if self.is_pure(name, call):
                self.pure_used.add(name)
                if name == '(*sync.Once).Do' and len(args) == 2 and isinstance(args[1], ClosureV):
                    # runs the function (at most once; the patcher's uses are single calls)
                    f2 = self.prog.funcs.get(args[1].fn)
                    if f2 is not None and args[1].fn not in self.call_stack:
                        self.inline_call(ctx, ins, st, f2, args[1], [], self.find_func_spec(args[1].fn))
                        return None
                for a in args:
                    if isinstance(a, ClosureV):
                        for cid in self.closure_cells(a, written_only=True):
                            if cid in st.cells and not isinstance(st.cells[cid], (PtrV, ClosureV)):
                                st.cells[cid] = fresh_like(st.cells[cid], 'pc')
                                self.record_write(('cell', cid))
                return self.pure_result(name, args, res_types, st)
            return self.unknown_call(ctx, ins, st, name, args, res_types)
        if is_term(fv):
            if fv in self.fnvals:
                return self.do_call(ctx, ins, st, call, self.fnvals[fv], args, want_result)
            ps = self.fnspecs.get(fv)
            if ps is not None:
                return self.apply_param_contract(ctx, ins, st, ps, args, res_types)
            return self.unknown_call(ctx, ins, st, 'func value %s' % self.prog.srcline(ins.get('pos', '')), args, res_types)
        raise Unsupported('call of %r' % (fv,))

    def realign_args(self, name, fn, args):
        """an in-context contract names the callee's arguments by POSITION (`args a, b, c`), as the callee declared them
        when the contract was written.  If the callee (a function of this module) has since gained a parameter or had
        its parameters reordered, the arguments are put back into the baseline order by parameter NAME."""
        if fn is None:
            return args, None
        ptypes = [p_['type'] for p_ in fn['params']]
        from .baseline import load as load_baseline
        bp = (load_baseline().get('#params') or {}).get(name)
        cur = [p_['name'] for p_ in fn['params']]
        if not bp or bp == cur or len(cur) != len(args):
            return args, ptypes
        out_a, out_t = [], []
        for nm in bp:
            if nm not in cur or cur.count(nm) != 1:
                return args, ptypes
            j = cur.index(nm)
            out_a.append(args[j])
            out_t.append(ptypes[j])
        self.renamed_used.add('%s: arguments of %s realigned to the baseline parameter order' % (self.oname, name.rsplit('/', 1)[-1]))
        return out_a, out_t

    def find_iface_spec(self, iface, method):
        cands = [iface + '.' + method]
        if '/' in iface:
            cands.append(iface.rsplit('/', 1)[-1] + '.' + method)
        for c in cands:
            if c in self.specs.ifaces:
                return self.specs.ifaces[c]
        return None

    def fresh_results(self, res_types, prefix):
        vals = []
        for t in res_types:
            v = self.ty.symbolic(t, 'r_' + re.sub(r'\W', '_', prefix)[-24:])
            self.assume_facts(v, t)
            vals.append(v)
        if not vals:
            return None
        if len(vals) == 1:
            return vals[0]
        return TupleV(vals)

    def pure_uf(self, name, args):
        f = T.UF('pure_' + re.sub(r'[^A-Za-z0-9_.]', '_', name), [T.INT] * len(args), T.INT)
        return f(*args)

    def pure_result(self, name, args, res_types, st):
        if len(res_types) == 1 and all(is_term(a) and T.sort_of(a) == T.INT for a in args) and args and \
                self.ty.leaves(res_types[0])[0][1] == T.INT and len(self.ty.leaves(res_types[0])) == 1 and \
                name.rsplit('/', 1)[-1].split('.')[0] in ('filepath', 'path', 'strings', 'strconv'):
            # a pure function of scalar arguments is a FUNCTION: same arguments, same result
            r = self.pure_uf(name, args)
            self.assume_facts(r, res_types[0])
            return r
        r = self.fresh_results(res_types, name.rsplit('.', 1)[-1])
        # a few library facts that are needed everywhere (each is an assumption on the dependency)
        base = name.rsplit('/', 1)[-1]
        if base in ('errors.WithStack', 'errors.Wrap', 'errors.Wrapf', 'errors.WithMessage', 'errors.New', 'errors.Errorf', 'fmt.Errorf'):
            if is_term(r):
                # a freshly built error value is never one of the package-level sentinel errors (io.EOF, ...)
                self.add_hyp(T.or_(T.lt(r, T.I(900000)), T.lt(T.I(900100), r)))
        if base in ('errors.WithStack', 'errors.Wrap', 'errors.Wrapf', 'errors.WithMessage'):
            e = args[0]
            if is_term(r) and is_term(e):
                self.add_hyp(T.eq(T.eq(r, T.ZERO), T.eq(e, T.ZERO)))
                self.add_hyp(T.eq(self.uf_iseof(r), self.uf_iseof(e)))
                self.add_hyp(T.eq(self.uf_errkind(r), self.uf_errkind(e)))
                self.add_hyp(T.implies(T.eq(e, T.ZERO), T.eq(r, T.ZERO)))
        elif base in ('errors.New', 'errors.Errorf', 'fmt.Errorf'):
            if is_term(r):
                self.add_hyp(T.lt(T.ZERO, r))
                self.add_hyp(T.not_(self.uf_iseof(r)))
        elif base == 'errors.Cause':
            e = args[0]
            if is_term(r) and is_term(e):
                self.add_hyp(T.eq(T.eq(r, T.ZERO), T.eq(e, T.ZERO)))
                self.add_hyp(T.eq(self.uf_iseof(r), self.uf_iseof(e)))
                self.add_hyp(T.eq(self.uf_errkind(r), self.uf_errkind(e)))
        return r

    def unknown_call(self, ctx, ins, st, name, args, res_types, wharf=False):
        if not self.mute:
            self.unmodelled.add(name)
        self.havoc_all_heap(st)
        for a in args:
            if isinstance(a, ClosureV):
                for cid in self.closure_cells(a, written_only=True):
                    if cid in st.cells and not isinstance(st.cells[cid], (PtrV, ClosureV)):
                        st.cells[cid] = fresh_like(st.cells[cid], 'uc')
                        self.record_write(('cell', cid))
        return self.fresh_results(res_types, name)

    def closure_cells(self, cl, written_only=False, seen=None):
        """cells captured by a closure (transitively through nested literals); optionally only those it stores to."""
        out = set()
        fn = self.prog.funcs.get(cl.fn)
        if fn is None:
            return out
        fvmap = {p['name']: b for p, b in zip(fn['freevars'], cl.bindings)}
        if not written_only:
            for b in cl.bindings:
                if isinstance(b, PtrV) and b.kind == 'cell':
                    out.add(b.a)
        derived = {}
        for blk in fn['blocks']:
            for ins in blk['instrs']:
                if ins['op'] == 'FieldAddr':
                    x = ins['x']
                    if isinstance(x, dict) and 'fv' in x:
                        derived[ins['id']] = x['fv']
                    elif isinstance(x, str) and x in derived:
                        derived[ins['id']] = derived[x]
        for blk in fn['blocks']:
            for ins in blk['instrs']:
                if ins['op'] == 'Store':
                    a = ins['addr']
                    root = a['fv'] if isinstance(a, dict) and 'fv' in a else derived.get(a) if isinstance(a, str) else None
                    if root and isinstance(fvmap.get(root), PtrV) and fvmap[root].kind == 'cell':
                        out.add(fvmap[root].a)
                elif ins['op'] == 'MakeClosure':
                    binds = []
                    for b in ins['bindings']:
                        if isinstance(b, dict) and 'fv' in b:
                            binds.append(fvmap.get(b['fv']))
                        else:
                            binds.append(None)
                    out |= self.closure_cells(ClosureV(ins['fn'], binds), written_only)
        return out

    # ------------------------------------------------------------ inlining
    def inline_call(self, ctx, ins, st, fn, fv, args, spec):
        self.call_stack.append(fn['name'])
        self.inlined.add(fn['name'])
        try:
            # deterministic per call site: the same inlined call gets the same cells in every pass over a loop body
            frame = (ctx['frame'], ins.get('id') or ins.get('pos') or fn['name'])
            ex, results = self.run_function(fn, frame, st, args, fv.bindings, spec, depth=ctx['depth'] + 1)
        finally:
            self.call_stack.pop()
        if ex is None:
            st.pc = T.FALSE
            return self.fresh_results([r['type'] for r in fn['results']], 'dead')
        st.pc, st.cells, st.heap, st.volatile = ex.pc, ex.cells, ex.heap, ex.volatile
        if not results:
            return None
        if len(results) == 1:
            return results[0]
        return TupleV(results)

    # ------------------------------------------------------------ contracts
    def apply_func_contract(self, ctx, ins, st, spec, fn, fv, args, res_types, fullname):
        names = {}
        if fn is not None:
            for p, a in zip(fn['params'], args):
                names[p['name']] = (a, p['type'])
            rnames = [r['name'] for r in fn['results']]
            rtypes = [r['type'] for r in fn['results']]
            from .baseline import renames
            self._raliases = renames(fn)
            for old_, new_ in self._raliases.items():
                if old_ not in names and new_ in names:
                    names[old_] = names[new_]
            # captured variables of a literal: resolved through the caller's cell names
        else:
            argn = spec.args or ['a%d' % i for i in range(len(args))]
            un, sig = self.ty.under(ins['call']['sig'])
            ptypes = sig.get('params', [])
            if len(ptypes) < len(args):
                ptypes = [None] * (len(args) - len(ptypes)) + list(ptypes)
            for n, a, t in zip(argn, args, ptypes):
                names[n] = (a, t)
            rnames = spec.results or []
            rtypes = res_types
        if spec.assumed or spec.trusted:
            self.assumed_used.add(spec.name)
        label = fullname.rsplit('/', 1)[-1].replace('(*', '').replace(')', '')
        extra_cells = None
        if fn is not None and fn.get('freevars'):
            extra_cells = {}
            for p, b in zip(fn['freevars'], fv.bindings):
                if isinstance(b, PtrV) and b.kind == 'cell' and not b.path:
                    extra_cells[p['name']] = (b.a, self.ty.elem(p['type']))
        pkg = None
        if fn is not None:
            pkg = self.prog.short(fullname)[0]
            # ghost variables of the callee's contract that this function does not declare itself: per-callee ghost
            # state, unknown here (and havocked by the callee's modifies)
            for g, sort in spec.ghost:
                if g not in self.ghost_cells and not (extra_cells and g in extra_cells):
                    cid = ('fghost', spec.name, g)
                    if cid not in st.cells:
                        st.cells[cid] = T.V(T.fresh_name('FG_' + g), SORTS.get(sort, T.INT))
                    extra_cells = dict(extra_cells or {})
                    extra_cells[g] = (cid, None)
        return self.apply_contract_env(ctx, ins, st, spec, names, rnames, rtypes, label, extra_cells, pkg=pkg)

    def apply_contract(self, ctx, ins, st, spec, recv, iface, args, res_types, label):
        names = {'self': (recv, iface)}
        argn = spec.args or ['a%d' % i for i in range(len(args))]
        un, sig = self.ty.under(ins['call']['sig'])
        ptypes = sig.get('params', [None] * len(args))
        for n, a, t in zip(argn, args, ptypes):
            names[n] = (a, t)
        if spec.assumed:
            self.assumed_used.add(spec.name)
        return self.apply_contract_env(ctx, ins, st, spec, names, spec.results or [], res_types, label)

    def apply_param_contract(self, ctx, ins, st, ps, args, res_types, ptypes=None):
        names = {}
        argn = ps.args or ['a%d' % i for i in range(len(args))]
        un, sig = self.ty.under(ins['call']['sig'])
        if ptypes is None:
            ptypes = list(sig.get('params', [None] * len(args)))
        if len(ptypes) < len(args):
            ptypes = [None] * (len(args) - len(ptypes)) + ptypes
        for n, a, t in zip(argn, args, ptypes):
            names[n] = (a, t)
        return self.apply_contract_env(ctx, ins, st, ps, names, ps.results or [], res_types, ps.name)

    def apply_contract_env(self, ctx, ins, st, spec, names, rnames, rtypes, label, extra_cells=None, pkg=None):
        pkg = pkg or self.pkg
        cn = self.cellnames_for(ctx, ctx.get('block'))
        if extra_cells:
            cn = dict(cn)
            cn.update(extra_cells)
        allnames = dict(self.base_names) if spec.kind == 'param' else {}
        allnames.update(names)
        pc_ = (spec.kind == 'param')     # in-function specs speak about the current values of the function's variables
        env = Env(allnames, st, self.entry_state, cn, pkg, prefer_cells=pc_)
        if pc_:
            env.bound = set(names)
        pos = ins.get('pos', '')
        fghosts = {g for g, (cid, _) in (extra_cells or {}).items() if isinstance(cid, tuple) and cid and cid[0] == 'fghost'}
        for c in spec.requires:
            try:
                mwhen = re.match(r'^when\s+(\w+)\s+is\s+([^:]+):\s*(.*)$', c.text, re.S)
                if mwhen:
                    # clause about one dynamic type of an interface-valued argument: demanded where that is the static type
                    av = allnames.get(mwhen.group(1), (None, None))[0]
                    want = self.type_from_ast(parse_expr(mwhen.group(2).strip()), env)
                    have = self.iface_static.get(av, (None, None))[0] if is_term(av) else None
                    if have != want:
                        continue
                    t = self.eval_bool(parse_expr(mwhen.group(3)), env)
                    self.oblige('pre', t, st, '%s: %s' % (label, c.text), pos, clause=None,
                                slug='%s-%s' % (label, c.slug()), fnname=self.cur_name(ctx))
                    continue
                conj = split_conj(c.parse()) if fghosts else [c.parse()]
                check = [a for a in conj if not (ast_names(a) & fghosts)]
                init = [a for a in conj if ast_names(a) & fghosts]
                for a in init:
                    # a conjunct over the callee's own ghost state is the INITIAL value of that state in this
                    # invocation (ghost state is per call): set, not demanded (vacuity: cover after the call)
                    for g in ast_names(a) & fghosts:
                        st.cells[extra_cells[g][0]] = fresh_like(st.cells[extra_cells[g][0]], 'fg')
                    self.add_hyp(T.implies(st.pc, self.eval_bool(a, env)))
                for a in check:
                    t = self.eval_bool(a, env)
                    self.oblige('pre', t, st, '%s: %s' % (label, c.text), pos, clause=None,
                                slug='%s-%s' % (label, c.slug()), fnname=self.cur_name(ctx))
            except Unsupported as e:
                self.elab_fail('precondition of %s %r: %s' % (label, c.text, e))
        pre = st.copy()
        before_cover = (len(self.hyps), st.pc)
        if spec.modifies:
            self.havoc_locs(spec.modifies, env, st)
        # results
        vals = []
        rn = {}
        for i, t in enumerate(rtypes):
            v = self.ty.symbolic(t, 'r_' + re.sub(r'\W', '_', label)[-20:])
            self.assume_facts(v, t)
            vals.append(v)
            nm = rnames[i] if i < len(rnames) and rnames[i] else None
            if nm:
                rn[nm] = (v, t)
            rn['r%d' % i] = (v, t)
        for old_, new_ in (getattr(self, '_raliases', None) or {}).items():
            if new_ in rn and old_ not in rn:
                rn[old_] = rn[new_]
        self._raliases = None
        if len(vals) == 1:
            rn.setdefault('result', (vals[0], rtypes[0]))
        if vals and rtypes[-1] == 'error':
            rn.setdefault('err', (vals[-1], rtypes[-1]))
        n2 = dict(allnames)
        n2.update(rn)
        env2 = Env(n2, st, pre, cn, pkg, prefer_cells=pc_)
        if any('fresh(' in c.text for c in spec.ensures):
            prev = self.alloc_refs[-1] if self.alloc_refs else self.ALLOC0
            wm = T.fresh('wm')
            if not self.mute:
                self.hyps.append(T.le(prev, wm))
                if not self.alloc_refs:
                    self.hyps.append(T.le(T.ZERO, self.ALLOC0))
                self.alloc_refs.append(wm)
            env2.fresh_bounds = (prev, wm)
        if pc_:
            env2.bound = set(names) | set(rn)
        for c in spec.ensures:
            try:
                mwhen = re.match(r'^when\s+(\w+)\s+is\s+([^:]+):\s*(.*)$', c.text, re.S)
                if mwhen:
                    # clause about one dynamic type of an interface-valued argument: applies where that is the static type
                    av = n2.get(mwhen.group(1), (None, None))[0]
                    want = self.type_from_ast(parse_expr(mwhen.group(2).strip()), env2)
                    have = self.iface_static.get(av, (None, None))[0] if is_term(av) else None
                    if have != want:
                        continue
                    t = self.eval_bool(parse_expr(mwhen.group(3)), env2)
                else:
                    t = self.eval_bool(c.parse(), env2)
                self.add_hyp(t, st)
            except (Unsupported, ParseError) as e:
                self.elab_fail('postcondition of %s %r: %s' % (label, c.text, e))
        if spec.ensures and not self.mute:
            # vacuity canary: the assumed postcondition must not contradict what is known at this call site
            self.cover('after-%s' % re.sub(r'[^A-Za-z0-9_.$]', '_', label)[:40], st, pos, before=before_cover)
        if getattr(spec, 'alias', None) and spec.alias in names:
            # the call returns that argument itself (same function value / object)
            return names[spec.alias][0]
        if not vals:
            return None
        if len(vals) == 1:
            return vals[0]
        return TupleV(vals)

    def havoc_locs(self, locs, env, st):
        # every location expression designates what it designates BEFORE the call (a clause like
        # `modifies x.s, elems(T, base(x.s))` speaks about the old backing array)
        env = env.with_state(st.copy())
        for loc in locs:
            loc = loc.strip()
            if loc == 'heap':
                self.havoc_all_heap(st)
                continue
            if loc == 'nothing':
                continue
            try:
                m = re.match(r'^(.*)\[\*\]$', loc)
                if m:
                    x, tn = self.eval(parse_expr(m.group(1)), env)
                    if not isinstance(x, SliceV):
                        raise Unsupported('modifies %s: not a slice' % loc)
                    for p, s, lt in self.ty.leaves(x.elem):
                        name = self.leaf_name('E|%s' % x.elem, p)
                        arr = self.heap_get(st, name, T.ARR(T.INT, T.ARR(T.INT, s)))
                        self.record_write(('heap', name), x.base)
                        st.heap[name] = T.store(arr, x.base, T.fresh('hv_elems', T.ARR(T.INT, s)))
                    continue
                m = re.match(r'^elems\((\w+),\s*(.*)\)$', loc)
                if m:
                    bx = self.eval_int(parse_expr(m.group(2)), env)
                    name = 'E|%s' % m.group(1)
                    arr = self.heap_get(st, name, T.ARR(T.INT, T.AII))
                    self.record_write(('heap', name), bx)
                    st.heap[name] = T.store(arr, bx, T.fresh('hv_elems', T.AII))
                    continue
                m = re.match(r'^map\((.*)\)$', loc)
                if m:
                    x, tn = self.eval(parse_expr(m.group(1)), env)
                    for name, srt in self.map_arrays(tn):
                        arr = self.heap_get(st, name, T.ARR(T.INT, srt))
                        self.record_write(('heap', name), x)
                        st.heap[name] = T.store(arr, x, T.fresh('hv_map', srt))
                    continue
                m = re.match(r'^maps\((.*)\)$', loc)
                if m:
                    tn = self.resolve_map_type(m.group(1).strip())
                    for name, srt in self.map_arrays(tn):
                        arr = self.heap_get(st, name, T.ARR(T.INT, srt))
                        self.record_write(('heap', name))
                        st.heap[name] = T.fresh('hv_maps', T.ARR(T.INT, srt))
                    continue
                m = re.match(r'^\*(\w+)$', loc)
                if m:
                    # *x : everything the pointer (or the pointer inside the interface value) x designates
                    x, tn = self.eval(parse_expr(m.group(1)), env)
                    if is_term(x) and x in self.iface_static:
                        ptn, px = self.iface_static[x]
                        x, tn = px, ptn
                    if is_term(x) and tn and self.ty.kind(tn) == 'pointer' and self.ty.kind(self.ty.elem(tn)) == 'struct':
                        stn = self.ty.elem(tn)
                        for fname, ftype in self.ty.struct_fields(stn):
                            v = self.ty.symbolic(ftype, 'hv_' + fname)
                            self.assume_facts(v, ftype)
                            self.store(st, PtrV('field', x, stn, None, (fname,)), v)
                        continue
                    if is_term(x):
                        self.havoc_at_ref(st, self.uf_pay(x) if (tn and self.ty.kind(tn) == 'interface') else x)
                        continue
                    raise Unsupported('modifies %s: target type unknown; everything havoced' % loc)
                m = re.match(r'^(.*)\.\*$', loc)
                if m:
                    x, tn = self.eval(parse_expr(m.group(1)), env)
                    stn = self.ty.elem(tn) if self.ty.kind(tn) == 'pointer' else tn
                    for fname, ftype in self.ty.struct_fields(stn):
                        ptr = PtrV('field', x, stn, None, (fname,))
                        self.store(st, ptr, self.ty.symbolic(ftype, 'hv_' + fname))
                    continue
                ast = parse_expr(loc)
                if ast[0] == 'name':
                    nm = ast[1]
                    if nm in env.cellnames:
                        cid, tn = env.cellnames[nm]
                        if cid in st.cells:
                            st.cells[cid] = fresh_like(st.cells[cid], 'hv_' + nm)
                            self.record_write(('cell', cid))
                            if tn:
                                self.assume_facts(st.cells[cid], tn)
                        continue
                    raise Unsupported('modifies %s: unknown variable' % loc)
                if ast[0] == 'sel':
                    x, stn, path = self.field_path(ast, env)
                    ft = self.type_at(stn, path)
                    v = self.ty.symbolic(ft, 'hv_' + path[-1])
                    self.assume_facts(v, ft)
                    self.store(st, PtrV('field', x, stn, None, path), v)
                    continue
                if ast[0] == 'call' and ast[1] in self.specs_ghostfields():
                    x = self.eval_int(ast[2][0], env)
                    name = 'G|' + ast[1]
                    sort = SORTS[self.specs_ghostfields()[ast[1]]]
                    arr = self.heap_get(st, name, T.ARR(T.INT, sort))
                    self.record_write(('heap', name), x)
                    st.heap[name] = T.store(arr, x, T.fresh('hv_' + ast[1], sort))
                    continue
                raise Unsupported('modifies %s' % loc)
            except Unsupported as e:
                self.elab_fail('%s' % e)
                self.havoc_all_heap(st)

    def field_path(self, ast, env):
        """x.a.b.c  ->  (reference term, struct type name, ('a','b','c')) where x is the innermost pointer"""
        path = []
        cur = ast
        while cur[0] == 'sel':
            path.append(cur[2])
            inner = cur[1]
            try:
                x, tn = self.eval(inner, env)
            except Unsupported:
                x, tn = None, None
            if x is not None and is_term(x) and tn and self.ty.kind(tn) == 'pointer' and self.ty.kind(self.ty.elem(tn)) == 'struct':
                return x, self.ty.elem(tn), tuple(reversed(path))
            cur = inner
        raise Unsupported('modifies: no pointer at the root of the field path')

    def map_arrays(self, tn):
        """[(heap array name, inner sort)] of a map type"""
        md, mv, et = self.map_names(tn)
        out = [(md, T.AIB)]
        for p, srt, lt in self.ty.leaves(et):
            out.append((mv if not p else mv + '|' + '.'.join(p), T.ARR(T.INT, srt)))
        return out

    def resolve_map_type(self, text):
        t = text.replace(' ', '')
        for full in self.prog.types:
            if full.replace(' ', '') == t and self.ty.kind(full) == 'map':
                return full
        raise Unsupported('unknown map type %s' % text)

    def chanspec(self, table, ctx, st, ch):
        """contract of a channel operation: by the channel value, or by the (local) variable currently holding it"""
        if not is_term(ch):
            return None
        ps = table.get(ch)
        if ps is not None or not self.chan_pending:
            return ps
        names = dict(self.base_names)
        env = Env(names, st, self.entry_state, self.cellnames_for(ctx, ctx.get('block')), self.pkg, prefer_cells=True)
        for path, spec_, tbl in self.chan_pending:
            if tbl is not table:
                continue
            try:
                v, tn = self.eval(parse_expr(path), env)
            except Unsupported:
                continue
            if is_term(v) and v == ch:
                return spec_
        return None

    def specs_ghostfields(self):
        return getattr(self.specs, 'ghostfields', {})

    # ------------------------------------------------------------ goroutines
    def record_fork(self, ctx, ins, st, tasks, multi, kind='fork'):
        if self.mute or not tasks:
            return
        self.fork_groups.append({'tasks': tasks, 'multi': multi, 'state': st.copy(), 'nhyps': len(self.hyps), 'nescaped': len(self.escaped_closures),
                                 'pos': ins.get('pos', ''), 'kind': kind})

    def in_loop(self, ctx):
        b = ctx.get('block')
        return any(b in body for body in ctx['cfg'].loops.values())

    def on_go(self, ctx, ins, st, call, fv, args):
        self.spawned = True
        if isinstance(fv, ClosureV):
            self.record_fork(ctx, ins, st, [fv], self.in_loop(ctx), kind='go')
            vol = set(st.volatile)
            for cid in self.closure_cells(fv, written_only=True):
                vol.add(cid)
            st.volatile = frozenset(vol)
            self.go_sites.append((ctx['fn']['name'], ins.get('pos'), fv))
        self.havoc_all_heap(st)

    def sync_point(self, st):
        if getattr(self, 'spawned', False):
            self.havoc_all_heap(st)

    # ------------------------------------------------------------ builtins
    def builtin(self, ctx, ins, st, call):
        name = call['callee']
        args = [self.val(ctx, a) for a in call['args']]
        if name == 'len':
            x = args[0]
            if isinstance(x, SliceV):
                r = x.len
            elif isinstance(x, PtrV) and x.kind == 'arr':
                r = T.I(self.ty.under(x.b)[1]['len'])
            elif is_term(x):
                sig = self.ty.under(call['sig'])[1]
                pt = sig['params'][0]
                if self.ty.is_string(pt):
                    r = self.strlen(x)
                elif self.ty.kind(pt) == 'map':
                    r = self.uf_maplen(x)
                else:
                    r = T.fresh('len')
                    self.add_hyp(T.le(T.ZERO, r))
            else:
                raise Unsupported('len of %r' % (x,))
            self.setreg(ctx, ins, r)
        elif name == 'cap':
            x = args[0]
            if isinstance(x, SliceV):
                self.setreg(ctx, ins, x.cap)
            else:
                r = T.fresh('cap')
                self.add_hyp(T.le(T.ZERO, r))
                self.setreg(ctx, ins, r)
        elif name == 'copy':
            dst, src = args
            if not isinstance(dst, SliceV):
                raise Unsupported('copy dst')
            if isinstance(src, SliceV):
                n = T.tmin(dst.len, src.len)
                self.copy_elems(st, dst, T.ZERO, src, T.ZERO, n)
            else:
                n = T.tmin(dst.len, self.strlen(src))
                self.havoc_elems(st, dst)
            self.setreg(ctx, ins, n)
        elif name == 'append':
            s, t = args
            if not isinstance(s, SliceV):
                raise Unsupported('append to %r' % (s,))
            if isinstance(t, SliceV):
                tl = t.len
            else:
                tl = self.strlen(t)
            newlen = T.add(s.len, tl)
            fits = T.le(newlen, s.cap)
            nb = self.fresh_ref('app')
            rb = T.fresh('appbase')
            ro = T.fresh('appoff')
            rc = T.fresh('appcap')
            self.add_hyp(T.implies(fits, T.and_(T.eq(rb, s.base), T.eq(ro, s.off), T.eq(rc, s.cap))))
            self.add_hyp(T.implies(T.not_(fits), T.and_(T.eq(rb, nb), T.eq(ro, T.ZERO), T.le(newlen, rc), T.le(rc, T.I(1 << 48)))))
            res = SliceV(rb, ro, newlen, rc, s.elem)
            # contents: prefix preserved, suffix = t
            self.copy_elems(st, res, T.ZERO, s, T.ZERO, s.len, keep_rest_only_if=fits)
            if isinstance(t, SliceV):
                self.copy_elems(st, res, s.len, t, T.ZERO, tl)
            else:
                self.havoc_elems(st, res)
            self.setreg(ctx, ins, res)
        elif name == 'delete':
            m, k = args
            sig = self.ty.under(call['sig'])[1]
            mt = sig['params'][0]
            md, mv, et = self.map_names(mt)
            arr = self.heap_get(st, md, T.ARR(T.INT, T.AIB))
            self.record_write(('heap', md))
            st.heap[md] = T.store(arr, m, T.store(T.select(arr, m), k, T.FALSE))
        elif name == 'close':
            ps = self.chanspec(self.closespecs, ctx, st, args[0])
            if ps is not None:
                fake = dict(ins)
                fake['call'] = {'sig': 'func()', 'args': []}
                self.apply_contract_env(ctx, fake, st, ps, {}, [], [], ps.name)
        elif name in ('min', 'max'):
            r = args[0]
            for a in args[1:]:
                r = T.tmin(r, a) if name == 'min' else T.tmax(r, a)
            self.setreg(ctx, ins, r)
        elif name in ('print', 'println'):
            pass
        elif name == 'ssa:deferstack':
            self.setreg(ctx, ins, T.ZERO)
        elif name == 'ssa:wrapnilchk':
            self.setreg(ctx, ins, args[0])
        elif name == 'recover':
            self.setreg(ctx, ins, T.ZERO)
        else:
            raise Unsupported('builtin %s' % name)

    def havoc_elems(self, st, s):
        for p, srt, lt in self.ty.leaves(s.elem):
            name = self.leaf_name('E|%s' % s.elem, p)
            arr = self.heap_get(st, name, T.ARR(T.INT, T.ARR(T.INT, srt)))
            self.record_write(('heap', name), s.base)
            st.heap[name] = T.store(arr, s.base, T.fresh('hv_elems', T.ARR(T.INT, srt)))

    def copy_elems(self, st, dst, doff, src, soff, n, keep_rest_only_if=None):
        """dst[doff : doff+n] = src[soff : soff+n] (memmove: source read from the pre-state)."""
        for p, srt, lt in self.ty.leaves(dst.elem):
            name = self.leaf_name('E|%s' % dst.elem, p)
            sname = self.leaf_name('E|%s' % src.elem, p)
            arr = self.heap_get(st, name, T.ARR(T.INT, T.ARR(T.INT, srt)))
            sarr = self.heap_get(st, sname, T.ARR(T.INT, T.ARR(T.INT, srt)))
            self.record_write(('heap', name), dst.base)
            if n[0] == 'i' and n[1] <= 4:
                inner = T.select(arr, dst.base)
                for j in range(n[1]):
                    inner = T.store(inner, T.add(dst.off, doff, T.I(j)),
                                    T.select(T.select(sarr, src.base), T.add(src.off, soff, T.I(j))))
                st.heap[name] = T.store(arr, dst.base, inner)
                continue
            new_inner = T.fresh('cp', T.ARR(T.INT, srt))
            if not self.mute:
                j = T.fresh_name('j')
                jv = T.V(j)
                lo = T.add(dst.off, doff)
                inside = T.and_(T.le(lo, jv), T.lt(jv, T.add(lo, n)))
                old_inner = T.select(arr, dst.base)
                src_inner = T.select(sarr, src.base)
                sidx = T.add(T.sub(jv, lo), T.add(src.off, soff))
                body = T.and_(T.implies(inside, T.eq(T.select(new_inner, jv), T.select(src_inner, sidx))),
                              T.implies(T.not_(inside), T.eq(T.select(new_inner, jv), T.select(old_inner, jv)))
                              if keep_rest_only_if is None else
                              T.implies(T.and_(T.not_(inside), keep_rest_only_if),
                                        T.eq(T.select(new_inner, jv), T.select(old_inner, jv))))
                self.add_hyp(T.implies(st.pc, T.forall([(j, T.INT)], body)))
            st.heap[name] = T.store(arr, dst.base, new_inner)

    # ------------------------------------------------------------ top level
    def sibling_literal(self, fn, name, st, depth):
        """fn is a function literal analysed on its own and captures the local `name` of func type.  When the enclosing
        function assigns that local exactly once, with a function literal (`name := func ...`), and no literal of the
        enclosing function assigns it, the captured value IS that literal: calls through it are calls of its body.  Its
        own captured variables become (transitive) free variables of fn, visible to fn's contract by name."""
        par = self.prog.funcs.get(fn.get('parent') or '')
        if par is None or depth > 3:
            return None
        defs = {}
        for b in par['blocks']:
            for ins in b['instrs']:
                if 'id' in ins:
                    defs[ins['id']] = ins
        allocs = [i for i in defs.values() if i['op'] == 'Alloc' and i.get('name') == name]
        if len(allocs) != 1:
            return None
        aid = allocs[0]['id']
        stores = [ins for b in par['blocks'] for ins in b['instrs'] if ins['op'] == 'Store' and ins.get('addr') == aid]
        if len(stores) != 1 or not isinstance(stores[0].get('val'), str):
            return None
        mk = defs.get(stores[0]['val'])
        if not mk or mk['op'] != 'MakeClosure':
            return None
        for g in self.prog.funcs.values():
            # a literal (at any depth) of the enclosing function that stores to the captured variable
            if g['name'].startswith(par['name'] + '$') and any(fv['name'] == name for fv in g.get('freevars', [])):
                for b in g['blocks']:
                    for ins in b['instrs']:
                        if ins['op'] == 'Store' and ins.get('addr') == {'fv': name}:
                            return None
        sib = self.prog.funcs.get(mk['fn'])
        if sib is None or sib['name'] == fn['name']:
            return None
        binds = []
        for breg, fvp in zip(mk['bindings'], sib['freevars']):
            d = defs.get(breg) if isinstance(breg, str) else None
            if d is not None and d['op'] == 'Alloc' and d.get('name'):
                nm, et = d['name'], d['elem']
            elif isinstance(breg, dict) and 'fv' in breg and any(fv['name'] == breg['fv'] for fv in par.get('freevars', [])):
                nm = breg['fv']
                et = self.ty.elem([fv for fv in par['freevars'] if fv['name'] == nm][0]['type'])
            else:
                return None
            cid = ('fv', nm)
            if cid not in st.cells:
                v = self.ty.symbolic(et, nm)
                for f in self.ty.facts(v, et, self.mode == 'wrap'):
                    self.hyps.append(f)
                st.cells[cid] = v
                self.cell_types[cid] = et
                if self.ty.kind(et) in ('pointer', 'map', 'chan') and is_term(v):
                    self.hyps.append(T.le(v, self.ALLOC0))
                self.transitive_fv[nm] = (cid, et)
                if self.ty.kind(et) == 'signature':
                    cl = self.sibling_literal(fn, nm, st, depth + 1)
                    if cl is not None:
                        st.cells[cid] = cl
            binds.append(PtrV('cell', cid))
        self.renamed_used.add('%s: captured local %s is the function literal %s' % (fn['name'].rsplit('/', 1)[-1], name, sib['name'].rsplit('.', 1)[-1]))
        return ClosureV(sib['name'], binds)

    def run(self):
        fn, spec = self.fn, self.spec
        T.reset_counter()
        self.call_stack = [fn['name']]
        self.cell_types = {}
        self.fnspecs = {}
        self.ifacespecs = {}
        self.chanspecs = {}
        self.closespecs = {}
        self.recvspecs = {}
        self.fork_groups = []
        self.chan_pending = []
        self.lemmas_used = set()
        self.go_sites = []
        self.spawned = False
        self.top_frame = self.new_frame()
        frame = self.top_frame
        st = State()
        args = []
        names = {}
        for i, p in enumerate(fn['params']):
            v = self.ty.symbolic(p['type'], p['name'])
            for f in self.ty.facts(v, p['type'], self.mode == 'wrap'):
                self.hyps.append(f)
            k = self.ty.kind(p['type'])
            for lf in self.ty.flatten(v, p['type']) if k in ('pointer', 'slice', 'struct', 'map', 'chan') else []:
                pass
            if k in ('pointer', 'map', 'chan') and is_term(v):
                self.hyps.append(T.le(v, self.ALLOC0))
            if k == 'slice':
                self.hyps.append(T.le(v.base, self.ALLOC0))
            if k == 'pointer' and is_term(v):
                self.param_refs.append(v)
                if (i == 0 and fn.get('hasrecv')) or (spec and p['name'] in spec.nonnil):
                    self.hyps.append(T.lt(T.ZERO, v))
            args.append(v)
            names[p['name']] = (v, p['type'])
        self.param_values = args
        bindings = []
        for p in fn['freevars']:
            et = self.ty.elem(p['type'])
            cid = ('fv', p['name'])
            v = self.ty.symbolic(et, p['name'])
            for f in self.ty.facts(v, et, self.mode == 'wrap'):
                self.hyps.append(f)
            st.cells[cid] = v
            self.cell_types[cid] = et
            if self.ty.kind(et) in ('pointer', 'map', 'chan') and is_term(v):
                self.hyps.append(T.le(v, self.ALLOC0))
            bindings.append(PtrV('cell', cid))
        self.transitive_fv = {}
        for p in fn['freevars']:
            if self.ty.kind(self.ty.elem(p['type'])) == 'signature' and not (spec and p['name'] in spec.params):
                # (a `param <name>:` clause means the contract abstracts the captured function by a contract of its own)
                cl = self.sibling_literal(fn, p['name'], st, 0)
                if cl is not None:
                    st.cells[('fv', p['name'])] = cl
        if spec:
            for g, sort in spec.ghost:
                cid = ('ghost', g)
                st.cells[cid] = T.V(T.fresh_name('G_' + g), SORTS.get(sort, T.INT))
                self.ghost_cells[g] = (cid, sort)
        from .baseline import renames
        for old_, new_ in renames(fn).items():
            if old_ not in names and new_ in names:
                names[old_] = names[new_]          # a renamed parameter / named result answers to its old name too
                self.renamed_used.add('%s: %s -> %s' % (fn['name'].rsplit('/', 1)[-1], old_, new_))
        self.base_names = names
        self.entry_state = st.copy()
        ctx0 = {'fn': fn, 'frame': frame, 'cfg': self.cfg(fn), 'spec': spec, 'freevars': {p['name']: b for p, b in zip(fn['freevars'], bindings)},
                'params': {p['name']: a for p, a in zip(fn['params'], args)}, 'depth': 0}
        env = Env(names, st, self.entry_state, self.cellnames_for(ctx0), self.pkg)
        if spec:
            for c in spec.requires:
                try:
                    self.hyps.append(self.eval_bool(c.parse(), env))
                    self.clause_hits[id(c)] = 1
                except (Unsupported, ParseError) as e:
                    self.elab_fail('requires %r: %s' % (c.text, e), c)
            for path, ps in spec.params.items():
                try:
                    ast = parse_expr(path)
                    done = False
                    if ast[0] == 'sel':
                        try:
                            rv, rt = self.eval(ast[1], env)
                            if is_term(rv) and rt and self.ty.kind(rt) == 'interface':
                                self.ifacespecs[(rv, ast[2])] = ps
                                done = True
                        except Unsupported:
                            pass
                    if not done and ast[0] == 'sel' and ast[1][0] == 'name' and ast[1][1] not in names:
                        done = True        # a local variable: resolved at the call (see do_call)
                    if not done:
                        v, tn = self.eval(ast, env)
                        if is_term(v):
                            self.fnspecs[v] = ps
                        else:
                            self.elab_fail('param %s: not a function value' % path)
                except Unsupported as e:
                    self.elab_fail('param %s: %s' % (path, e))
        if spec:
            for c in spec.using:
                try:
                    ast = parse_expr(c.text)
                    lname, largs = (ast[1], ast[2]) if ast[0] == 'call' else (ast[1], [])
                    lm = self.specs.lemmas.get(lname)
                    if lm is None:
                        raise Unsupported('unknown lemma %s' % lname)
                    given = [self.eval(a, env) for a in largs]
                    names2 = {}
                    qv = []
                    for i, (pn, ps) in enumerate(lm.params):
                        if i < len(given):
                            v = given[i][0]
                            if isinstance(v, SeqV):
                                v = v.arr
                            names2[pn] = (v, given[i][1])
                        else:
                            bn = T.fresh_name(pn)
                            if not hasattr(self, 'bound_names_all'):
                                self.bound_names_all = set()
                            self.bound_names_all.add(bn)
                            names2[pn] = (T.V(bn, SORTS.get(ps, T.INT)), None)
                            qv.append((bn, SORTS.get(ps, T.INT)))
                    body = self.eval_bool(lm.parse(), Env(names2, st, self.entry_state, {}, self.pkg))
                    self.hyps.append(T.forall(qv, body))
                    self.lemmas_used.add(lname)
                    self.clause_hits[id(c)] = 1
                except Unsupported as e:
                    self.elab_fail('using %r: %s' % (c.text, e), c)
            for table, store_ in ((spec.sends, self.chanspecs), (spec.closes, self.closespecs), (spec.recvs, self.recvspecs)):
                for path, ps in table.items():
                    try:
                        v, tn = self.eval(parse_expr(path), env)
                        if is_term(v):
                            store_[v] = ps
                        else:
                            self.elab_fail('send/closes %s: not a channel value' % path)
                    except Unsupported as e:
                        # a channel held in a local variable: resolved when it is used
                        self.chan_pending.append((path, ps, store_))
        self.cover('pre', st)
        try:
            ex, results = self.run_function(fn, frame, st, args, bindings, spec)
        except Unsupported as e:
            self.errors.append('execution failed: %s' % e)
            return
        if ex is None:
            if spec and spec.ensures:
                for c in spec.ensures:
                    self.clause_hits[id(c)] = 1
            return
        self.cover('exit', ex)
        rn = {}
        for i, r in enumerate(fn['results']):
            if r['name'] and r['name'] != '_':
                rn[r['name']] = (results[i], r['type'])
            rn['r%d' % i] = (results[i], r['type'])
        if len(results) == 1:
            rn.setdefault('result', (results[0], fn['results'][0]['type']))
        if results and fn['results'][-1]['type'] == 'error':
            rn.setdefault('err', (results[-1], fn['results'][-1]['type']))
        n2 = dict(names)
        n2.update(rn)
        ctx0['frame'] = frame
        envx = Env(n2, ex, self.entry_state, self.cellnames_for(ctx0), self.pkg)
        if spec:
            for c in spec.ensures:
                try:
                    t = self.eval_bool(c.parse(), envx)
                    self.oblige('post', t, ex, c.text, c.src, clause=c)
                except Unsupported as e:
                    self.elab_fail('ensures %r: %s' % (c.text, e), c)
            for c in spec.reports:
                try:
                    t = self.eval_bool(c.parse(), envx)
                    self.oblige('report', t, ex, c.text, c.src, clause=c, report_only=True)
                except Unsupported as e:
                    self.elab_fail('report %r: %s' % (c.text, e), c)
            # vacuity guard: every clause produced an obligation
            for c in spec.all_clauses():
                if not self.clause_hits.get(id(c)):
                    self.errors.append('clause produced no obligation (code it speaks about is gone or unreachable): %s %s'
                                       % (c.kind, c.text))
            for anchor, g, idx, val, c in spec.sets_at:
                if not self.clause_hits.get(id(c)):
                    self.errors.append('ghost assignment never executed (the statement it is anchored at is gone or unreachable): set-at %r: %s'
                                       % (anchor.replace('\x00after\x00', ''), g))
        self.exit_state = ex
        self.exit_env = envx
        self.check_frame(ex, env, envx, spec)
        if spec is not None and 'own' in spec.flags:
            from .frames import own_obligations
            own_obligations(self)

    def check_frame(self, ex, env0, envx, spec):
        """everything the function changed and a caller can see must be covered by its `modifies` clause
        (callers havoc exactly that).  Writes to objects allocated by this run are invisible to the caller."""
        locs = list(spec.modifies) if (spec is not None and spec.modifies) else []
        if 'heap' in [l.strip() for l in locs]:
            return
        allowed = {}     # heap array name -> list of allowed first-level keys (terms) ; None = whole array
        cells_ok = set()
        for loc in locs:
            loc = loc.strip()
            try:
                m = re.match(r'^(.*)\[\*\]$', loc)
                if m:
                    x, tn = self.eval(parse_expr(m.group(1)), env0)
                    for p, srt, lt in self.ty.leaves(x.elem):
                        nm_ = self.leaf_name('E|%s' % x.elem, p)
                        if allowed.get(nm_, []) is not None:
                            allowed.setdefault(nm_, []).append(x.base)
                    continue
                m = re.match(r'^elems\((\w+),\s*(.*)\)$', loc)
                if m:
                    bx = self.eval_int(parse_expr(m.group(2)), env0)
                    allowed.setdefault('E|%s' % m.group(1), []).append(bx)
                    continue
                m = re.match(r'^map\((.*)\)$', loc)
                if m:
                    x, tn = self.eval(parse_expr(m.group(1)), env0)
                    for name, srt in self.map_arrays(tn):
                        allowed.setdefault(name, []).append(x)
                    continue
                m = re.match(r'^maps\((.*)\)$', loc)
                if m:
                    for name, srt in self.map_arrays(self.resolve_map_type(m.group(1).strip())):
                        allowed[name] = None
                    continue
                m = re.match(r'^\*(\w+)$', loc)
                m2 = re.match(r'^(.*)\.\*$', loc)
                if m or m2:
                    x, tn = self.eval(parse_expr((m or m2).group(1)), env0)
                    if is_term(x) and x in self.iface_static:
                        tn, x = self.iface_static[x]
                    stn = self.ty.elem(tn) if tn and self.ty.kind(tn) == 'pointer' else tn
                    if stn is None or self.ty.kind(stn) != 'struct':
                        # target type unknown (interface value): any struct field array may change at that ref
                        allowed.setdefault('*', []).append(self.uf_pay(x) if is_term(x) else x)
                        allowed['*'].append(x)
                        continue
                    for fname, ftype in self.ty.struct_fields(stn):
                        for p, srt, lt in self.ty.leaves(ftype):
                            allowed.setdefault(self.leaf_name('F|%s|%s' % (stn, fname), p), []).append(x)
                    continue
                ast = parse_expr(loc)
                if ast[0] == 'name':
                    if ast[1] in env0.cellnames:
                        cells_ok.add(env0.cellnames[ast[1]][0])
                    continue
                if ast[0] == 'sel':
                    x, stn, path = self.field_path(ast, env0)
                    ft = self.type_at(stn, path)
                    for p, srt, lt in self.ty.leaves(ft):
                        allowed.setdefault(self.leaf_name('F|%s|%s' % (stn, path[0]), tuple(path[1:]) + tuple(p)), []).append(x)
                    continue
                if ast[0] == 'call' and ast[1] in self.specs_ghostfields():
                    x = self.eval_int(ast[2][0], env0)
                    allowed.setdefault('G|' + ast[1], []).append(x)
                    continue
            except (Unsupported, KeyError, AttributeError, ParseError) as e:
                self.elab_fail('modifies %s: %s' % (loc, e))
        # cells visible to the caller: captured variables and ghost cells
        for cid, v0 in self.entry_state.cells.items():
            if not (isinstance(cid, tuple) and cid and cid[0] in ('fv', 'ghost')):
                continue
            if cid in cells_ok:
                continue
            v1 = ex.cells.get(cid)
            if v1 is None or same_value(v0, v1):
                continue
            from .state import map_leaves
            eqs = []
            try:
                map_leaves(lambda a, b: (eqs.append(T.eq(a, b)), a)[1], v0, v1)
            except Unsupported:
                eqs = [T.FALSE]
            self.oblige('frame', T.and_(*eqs), ex, 'variable %s is changed but not listed in modifies' % (cid[1],), '',
                        slug='var-%s' % cid[1])
        fresh_refs = list(self.alloc_refs)
        ep = ex.heap.get('#epoch')
        if ep is not None and ep != T.ZERO:
            self.oblige('frame', T.FALSE, ex, 'an unmodelled call (or `modifies heap` callee) may change the whole heap; '
                        'the contract must say `modifies heap`', '', slug='whole-heap')
        for ref, ev, ep_at in ex.heap.get('#wild', ()):
            oks = [T.eq(ref, r) for r in allowed.get('*', [])]
            self.oblige('frame', T.or_(*oks) if oks else T.FALSE, ex,
                        'everything designated by a reference of unknown type is changed outside the modifies clause', '',
                        slug='wild-ref')
        for name in sorted(set(ex.heap)):
            if name.startswith('#'):
                continue
            a1 = ex.heap[name]
            a0 = self.heap0.get(name)
            if a0 is None:
                a0 = T.V('H0|' + name, T.sort_of(a1))
                self.heap0[name] = a0
            if a1 == a0:
                continue
            keys = allowed.get(name, [])
            if keys is None:
                continue
            if name.startswith('F|') and '*' in allowed:
                keys = keys + allowed['*']
            k = T.fresh('frame_k')
            conds = [T.not_(T.eq(k, r)) for r in keys]
            # objects allocated by this run live above the watermark: invisible to the caller
            conds.append(T.le(k, self.ALLOC0))
            goal = T.implies(T.and_(*conds), T.eq(T.select(a1, k), T.select(a0, k)))
            self.oblige('frame', goal, ex, 'heap component %s is changed outside the modifies clause' % name, '',
                        slug=re.sub(r'[^A-Za-z0-9_.|]', '_', name.replace('github.com/itchio/wharf/', ''))[:60])
