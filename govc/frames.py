"""Ownership / effect obligations (DESIGN App. A.4): `own`.

For every fork/join group recorded while executing a function flagged `own` -- a `go` statement (inside a loop:
several instances of the same literal), or a call of a callee listed in a `fork` clause with function-literal
arguments (taskgroup.Do) -- and every pair of tasks (A, B) of the group (a literal spawned in a loop is paired
with itself):

  own/var:  every captured VARIABLE written by A and read or written by B must be accessed, in both, only while a
            common mutex is held (syntactic lock-held data-flow over the literal's SSA);
  own/ptr:  two captured POINTERS of the same pointee type, one used in A and one in B, must be different objects
            (an SMT obligation on their values at the fork point) unless the variable is declared `readonly`
            in the contract, or is a channel / interface / function / sync.* value.

Frames are syntactic: locations reached through the heap beyond the captured variables themselves are not tracked
(listed as a limit in the evidence).
"""
from . import terms as T
from .state import Obligation
from .values import PtrV, ClosureV, is_term

SYNC_TYPES = ('sync.Mutex', 'sync.RWMutex', 'sync.WaitGroup', 'sync.Once', 'context.Context')


class Access:
    def __init__(self):
        self.reads = {}     # cell id -> list of (fn, pos, frozenset(locks held))
        self.writes = {}
        self.ptr_uses = {}  # cell id -> (type, [pos])
        self.names = {}     # cell id -> variable name
        self.ptr_calls = {} # cell id -> [(static callee, argument index, pos)]


def closure_access(run, cl, acc=None, depth=0, st=None, base_held=frozenset()):
    """accesses of a function literal to the variables it captures (cells of an enclosing frame)"""
    if acc is None:
        acc = Access()
    fn = run.prog.funcs.get(cl.fn)
    if fn is None or depth > 6:
        return acc
    fvmap = {}
    for p, b in zip(fn['freevars'], cl.bindings):
        if isinstance(b, PtrV) and b.kind == 'cell' and not b.path:
            fvmap[p['name']] = (b.a, run.ty.elem(p['type']))
            acc.names[b.a] = p['name']
    # roots: register -> free variable name (address of the captured variable or of a field inside it)
    root = {}
    loaded_from = {}     # register holding the VALUE loaded from a captured variable -> cell id
    for blk in fn['blocks']:
        for ins in blk['instrs']:
            if ins['op'] == 'FieldAddr':
                x = ins['x']
                if isinstance(x, dict) and 'fv' in x:
                    root[ins['id']] = x['fv']
                elif isinstance(x, str) and x in root:
                    root[ins['id']] = root[x]
    # lock-held data-flow (forward, intersection at joins)
    held_in = {}
    order = [b['idx'] for b in fn['blocks']]
    preds = {b['idx']: b['preds'] for b in fn['blocks']}
    blocks = {b['idx']: b for b in fn['blocks']}

    def mutex_of(arg):
        if isinstance(arg, dict) and 'fv' in arg and arg['fv'] in fvmap:
            return fvmap[arg['fv']][0]
        if isinstance(arg, str) and arg in root and root[arg] in fvmap:
            return (fvmap[root[arg]][0], 'field')
        return None

    def transfer(bidx, held, record):
        held = set(held)
        for ins in blocks[bidx]['instrs']:
            op = ins['op']
            if op in ('Call', 'Defer', 'Go'):
                c = ins['call']
                callee = c.get('callee') or ''
                if callee in ('(*sync.Mutex).Lock', '(*sync.RWMutex).Lock') and c['args']:
                    m = mutex_of(c['args'][0])
                    if m is not None and op == 'Call':
                        held.add(m)
                    continue
                if callee in ('(*sync.Mutex).Unlock', '(*sync.RWMutex).Unlock') and c['args']:
                    m = mutex_of(c['args'][0])
                    if m is not None and op == 'Call':
                        held.discard(m)
                    # a deferred Unlock keeps the lock to the end of the function
                    continue
                if record and op == 'Call' and isinstance(c.get('value'), str) and c['value'] in loaded_from and st is not None:
                    # call of a function literal held in a captured variable: its accesses happen under the locks
                    # held here
                    cv = st.cells.get(loaded_from[c['value']][0])
                    if isinstance(cv, ClosureV) and cv.fn not in stack_:
                        stack_.add(cv.fn)
                        called_closures.add(loaded_from[c['value']][0])
                        closure_access(run, cv, acc, depth + 1, st, frozenset(held) | base_held)
                        stack_.discard(cv.fn)
                if record:
                    for ai, a in enumerate(list(c['args'])):
                        if isinstance(a, str) and a in loaded_from and c.get('mode') == 'static':
                            acc.ptr_calls.setdefault(loaded_from[a][0], []).append((c.get('callee'), ai, ins.get('pos')))
                    for a in list(c['args']) + [c.get('recv'), c.get('value')]:
                        if isinstance(a, str) and a in loaded_from:
                            cid, tn = loaded_from[a]
                            acc.ptr_uses.setdefault(cid, (tn, []))[1].append((ins.get('pos'), frozenset(held) | base_held))
            if not record:
                continue
            if op == 'Store':
                a = ins['addr']
                fvn = a['fv'] if isinstance(a, dict) and 'fv' in a else (root.get(a) if isinstance(a, str) else None)
                if fvn in fvmap:
                    acc.writes.setdefault(fvmap[fvn][0], []).append((cl.fn, ins.get('pos'), frozenset(held) | base_held))
                if isinstance(a, str) and a in loaded_from:
                    pass
            elif op == 'UnOp' and ins['tok'] == '*':
                a = ins['x']
                fvn = a['fv'] if isinstance(a, dict) and 'fv' in a else (root.get(a) if isinstance(a, str) else None)
                if fvn in fvmap:
                    cid, tn = fvmap[fvn]
                    acc.reads.setdefault(cid, []).append((cl.fn, ins.get('pos'), frozenset(held) | base_held))
                    if isinstance(a, dict):
                        loaded_from[ins['id']] = (cid, tn)
            elif op == 'FieldAddr' and isinstance(ins['x'], str) and ins['x'] in loaded_from:
                cid, tn = loaded_from[ins['x']]
                acc.ptr_uses.setdefault(cid, (tn, []))[1].append((ins.get('pos'), frozenset(held) | base_held))
            elif op == 'MakeClosure':
                binds = []
                for b in ins['bindings']:
                    if isinstance(b, dict) and 'fv' in b and b['fv'] in fvmap:
                        binds.append(PtrV('cell', fvmap[b['fv']][0]))
                    else:
                        binds.append(None)
                closure_access(run, ClosureV(ins['fn'], binds), acc, depth + 1, st)
        return held

    stack_ = set([cl.fn])
    called_closures = set()
    changed = True
    held_out = {}
    it = 0
    while changed and it < 40:
        changed = False
        it += 1
        for b in order:
            if b == order[0] and not preds[b]:
                h = set()
            else:
                ins_sets = [held_out[p] for p in preds[b] if p in held_out]
                if not ins_sets:
                    continue          # no predecessor known yet (top): wait for the next round
                h = set.intersection(*[set(x) for x in ins_sets])
            held_in[b] = h
            out = transfer(b, h, False)
            if held_out.get(b) != out:
                held_out[b] = out
                changed = True
    for b in order:
        transfer(b, held_in.get(b, set()), True)
    # function values held in captured variables: what THEY capture counts as well
    if st is not None:
        for name, (cid, tn) in fvmap.items():
            v = st.cells.get(cid)
            if isinstance(v, ClosureV) and cid in acc.reads and cid not in called_closures:
                closure_access(run, v, acc, depth + 1, st, base_held)
    return acc


def writes_through_param(prog, fname, idx, depth=0, seen=None):
    """does the function store through its idx-th parameter (or through anything loaded from it)?  Syntactic, on the
    SSA: returns a position, 'unknown' when the value is handed to code that cannot be inspected, or None."""
    seen = seen if seen is not None else set()
    if (fname, idx) in seen:
        return None
    seen.add((fname, idx))
    fn = prog.funcs.get(fname)
    if fn is None or depth > 4:
        return 'unknown (%s is not inspected)' % fname
    if idx >= len(fn['params']):
        return None
    rooted = set()
    pname = fn['params'][idx]['name']
    # NaiveForm: parameters are spilled to Allocs; find the alloc the parameter is stored into
    param_cells = set()
    for blk in fn['blocks']:
        for ins in blk['instrs']:
            if ins['op'] == 'Store' and isinstance(ins.get('val'), dict) and ins['val'].get('p') == pname and isinstance(ins['addr'], str):
                param_cells.add(ins['addr'])

    def is_rooted(x):
        if isinstance(x, dict):
            return x.get('p') == pname
        return isinstance(x, str) and x in rooted
    changed = True
    while changed:
        changed = False
        for blk in fn['blocks']:
            for ins in blk['instrs']:
                op = ins['op']
                rid = ins.get('id')
                if rid is None or rid in rooted:
                    continue
                hit = False
                if op == 'UnOp' and ins.get('tok') == '*':
                    x = ins['x']
                    hit = (isinstance(x, str) and x in param_cells) or is_rooted(x)
                elif op in ('FieldAddr', 'IndexAddr', 'Field', 'Index', 'Slice', 'ChangeType', 'Convert', 'MakeInterface', 'ChangeInterface', 'Phi'):
                    xs = [ins.get('x')] + list(ins.get('edges', []) or [])
                    hit = any(is_rooted(x) for x in xs)
                if hit:
                    rooted.add(rid)
                    changed = True
    for blk in fn['blocks']:
        for ins in blk['instrs']:
            op = ins['op']
            if op == 'Store' and is_rooted(ins['addr']):
                return ins.get('pos') or fname
            if op == 'MapUpdate' and is_rooted(ins.get('map')):
                return ins.get('pos') or fname
            if op in ('Call', 'Go', 'Defer'):
                c = ins['call']
                for ai, a in enumerate(c['args']):
                    if not is_rooted(a):
                        continue
                    if c.get('mode') == 'static' and c.get('callee') in prog.funcs:
                        r = writes_through_param(prog, c['callee'], ai, depth + 1, seen)
                        if r:
                            return r
                    elif c.get('mode') == 'builtin' or (c.get('callee') or '') in ('len', 'cap'):
                        if c.get('callee') in ('copy',) and ai == 0:
                            return ins.get('pos') or fname
                        if c.get('callee') == 'append' and ai == 0:
                            return ins.get('pos') or fname
                    elif c.get('mode') == 'static':
                        cal = c.get('callee') or ''
                        if not any(cal.startswith(p_) for p_ in ('bytes.', 'sort.Search', 'fmt.', 'math.', 'strings.')):
                            return 'unknown (%s)' % cal
                    else:
                        return 'unknown (dynamic call at %s)' % (ins.get('pos') or fname)
    return None


def exempt_type(run, tn):
    if tn is None:
        return True
    k = run.ty.kind(tn)
    if k in ('chan', 'interface', 'signature', 'map'):
        return k != 'map'
    if k == 'pointer':
        et = run.ty.elem(tn)
        return any(et.endswith(s) for s in SYNC_TYPES)
    return True      # not a pointer: no heap object behind it


def own_obligations(run):
    spec = run.spec
    readonly = set()
    for o in getattr(spec, 'owns', []):
        # `owns readonly a, b`
        if o.startswith('readonly'):
            readonly.update(x.strip() for x in o[len('readonly'):].split(',') if x.strip())
    n_groups = 0
    # goroutines started by `go` statements of one function all run concurrently with each other: one group
    # (a literal started in a loop counts twice: several instances of it run at once)
    groups = [g for g in run.fork_groups if g.get('kind') != 'go']
    gos = [g for g in run.fork_groups if g.get('kind') == 'go']
    if gos:
        merged = dict(gos[-1])
        tasks = []
        seen_fn = set()
        for g in gos:
            for t in g['tasks']:
                if t.fn in seen_fn:
                    continue
                seen_fn.add(t.fn)
                tasks.append(t)
                if g.get('multi'):
                    tasks.append(t)
        merged['tasks'] = tasks
        merged['multi'] = False
        merged['nescaped'] = max(g.get('nescaped', 0) for g in gos)
        groups.append(merged)
    for gi, group in enumerate(groups):
        tasks = group['tasks']
        if group.get('multi') and len(tasks) == 1:
            tasks = tasks * 2
        accs = [closure_access(run, cl, st=group['state']) for cl in tasks]
        n_groups += 1
        seen = set()
        # function literals handed to code outside the contract (callbacks) or stored in objects before the fork: any
        # task may end up calling them, so their accesses count as one more task (variables only)
        esc = [cl for cl in run.escaped_closures[:group.get('nescaped', len(run.escaped_closures))]
               if all(cl.fn != t.fn for t in tasks)]
        pairs = [(i, j) for i in range(len(tasks)) for j in range(i + 1, len(tasks))]
        if esc:
            E = Access()
            for cl in esc:
                closure_access(run, cl, E, st=group['state'])
            E.ptr_uses = {}
            accs.append(E)
            pairs += [(i, len(tasks)) for i in range(len(tasks))]
        for (i, j) in pairs:
            if True:
                A, B = accs[i], accs[j]
                # --- variables
                for cid in sorted(set(A.writes) | set(B.writes), key=repr):
                    wa, wb = A.writes.get(cid, []), B.writes.get(cid, [])
                    ra, rb = A.reads.get(cid, []), B.reads.get(cid, [])
                    if not ((wa and (wb or rb)) or (wb and (wa or ra))):
                        continue
                    name = A.names.get(cid) or B.names.get(cid) or str(cid)
                    if ('var', name) in seen:
                        continue
                    seen.add(('var', name))
                    allacc = wa + wb + ra + rb
                    common = None
                    for (_, _, held) in allacc:
                        common = set(held) if common is None else (common & set(held))
                    ok = bool(common)
                    where = ', '.join(sorted({p for (_, p, h) in allacc if p and not h})[:4])
                    text = 'variable %s is written by one task and accessed by another of the same fork/join group%s' % (
                        name, '' if ok else ' without a common lock (unguarded accesses at %s)' % where)
                    o = Obligation('%s/own#%d:%s' % (run.oname, len(run.obls) + 1, name), 'own', run.fn['name'], text,
                                   group.get('pos', ''), len(run.hyps), T.TRUE if ok else T.FALSE)
                    if ok:
                        o.result = {'result': 'unsat', 'solver': 'lock-held data-flow', 'time': 0.0, 'trivial': True}
                    else:
                        o.result = {'result': 'sat', 'solver': 'lock-held data-flow', 'time': 0.0, 'trivial': True,
                                    'output': text, 'form': 'ground'}
                    run.obls.append(o)
                # --- pointers
                for ca, (ta, pa) in sorted(A.ptr_uses.items(), key=repr):
                    for cb, (tb, pb) in sorted(B.ptr_uses.items(), key=repr):
                        if ta != tb or exempt_type(run, ta):
                            continue
                        na, nb = A.names.get(ca, str(ca)), B.names.get(cb, str(cb))
                        if na in readonly and nb in readonly:
                            # declared read-only: every function the tasks hand the pointer to is inspected for a store
                            # through it (syntactic, transitive)
                            for nm, cid_, X in ((na, ca, A), (nb, cb, B)):
                                if ('ro', nm) in seen:
                                    continue
                                seen.add(('ro', nm))
                                bad = None
                                for callee, ai, pos_ in X.ptr_calls.get(cid_, []) + (B if X is A else A).ptr_calls.get(cid_, []):
                                    w = writes_through_param(run.prog, callee, ai)
                                    if w:
                                        bad = '%s (argument %d of %s) -> %s' % (pos_, ai, callee, w)
                                        break
                                text = 'pointer %s is declared readonly for the tasks of a fork/join group%s' % (
                                    nm, '' if not bad else ': written through, or handed to code that cannot be inspected: ' + bad)
                                o = Obligation('%s/own#%d:readonly-%s' % (run.oname, len(run.obls) + 1, nm), 'own', run.fn['name'], text,
                                               group.get('pos', ''), len(run.hyps), T.FALSE if bad else T.TRUE)
                                o.result = {'result': 'sat' if bad else 'unsat', 'solver': 'store-through-parameter scan', 'time': 0.0,
                                            'trivial': True, 'output': text, 'form': 'ground'}
                                run.obls.append(o)
                            continue
                        key = ('ptr', tuple(sorted([na, nb])))
                        if key in seen:
                            continue
                        seen.add(key)
                        common = None
                        for (_, held) in pa + pb:
                            common = set(held) if common is None else (common & set(held))
                        if common:
                            continue          # every use of both is under a common lock
                        st = group['state']
                        va, vb = st.cells.get(ca), st.cells.get(cb)
                        if not (is_term(va) and is_term(vb)):
                            continue
                        goal = T.implies(st.pc, T.or_(T.not_(T.eq(va, vb)), T.eq(va, T.ZERO)))
                        text = 'tasks of one fork/join group use %s and %s (%s): they must be different objects' % (na, nb, ta)
                        o = Obligation('%s/own#%d:%s-vs-%s' % (run.oname, len(run.obls) + 1, na, nb), 'own', run.fn['name'],
                                       text, group.get('pos', ''), group['nhyps'], goal)
                        run.obls.append(o)
    if spec is not None and 'own' in spec.flags and n_groups == 0:
        run.errors.append('flag own: no fork/join group was found in %s (the code it speaks about is gone)' % run.oname)
