"""developer sweep: run every function of the given packages without contracts; report engine robustness."""
import sys, time, traceback
from .engine import Engine, discharge_all, ob_ok
from .exec_core import FuncRun

def main():
    eng = Engine()
    pats = sys.argv[1:]
    tot = 0
    for pp, pk in eng.prog.packages.items():
        if pats and not any(pp.endswith(p) for p in pats):
            continue
        for fn in pk['funcs']:
            if fn.get('parent'):
                continue
            short = eng.prog.short(fn['name'])[1]
            spec = eng.specs.funcs.get((pp, short))
            run = FuncRun(eng.prog, eng.specs, fn, spec, engine=eng)
            t0 = time.time()
            try:
                run.run()
            except Exception as e:
                print('CRASH', fn['name'], repr(e))
                traceback.print_exc(limit=4)
                continue
            dt = time.time() - t0
            discharge_all(run, timeout=5)
            bad = [o for o in run.obls if not ob_ok(o)]
            tot += len(run.obls)
            print('%-70s obls=%3d fail=%2d abs=%2d unm=%2d err=%d gen=%.1fs' % (fn['name'].replace('github.com/itchio/wharf/', ''), len(run.obls), len(bad), len(run.abstracted), len(run.unmodelled), len(run.errors), dt))
            for o in bad:
                print('      FAIL', o.name, o.result.get('result'), o.pos)
            if '-v' in sys.argv:
                for a in run.abstracted: print('      ABS', a)
                for a in sorted(run.unmodelled): print('      UNM', a)
                for a in run.errors: print('      ERR', a)
    print('total obligations', tot)
main()
