"""bin/check: decide one property (DESIGN §8.2).

  python3 -m govc.check <Cnn> quick|thorough
  python3 -m govc.check --replay <file>
"""
import hashlib
import json
import os
import re
import sys
import time

from . import smt
from .engine import Engine, discharge, ob_ok, VERIF, relevant_hyps
from .properties import PROPERTIES
from . import terms as T

KF_PATH = os.path.join(VERIF, 'KNOWN_FINDINGS.json')
REPLAY_DIR = os.path.join(VERIF, 'replays')


def norm(s):
    return re.sub(r'\s+', '', s or '')


def ob_key(name):
    """obligation identity without the ordinal: '<fn>/<kind>:<slug>'"""
    m = re.match(r'^(.*)/([a-z0-9\-]+)#\d+:(.*)$', name)
    if not m:
        return name
    return '%s/%s:%s' % (m.group(1), m.group(2), m.group(3))


def load_known():
    try:
        d = json.load(open(KF_PATH))
    except Exception:
        return []
    return d.get('findings', [])


def match_known(known, prop, ob):
    k = ob_key(ob.name)
    for f in known:
        if f.get('property') != prop:
            continue
        if f.get('obligation') != k:
            continue
        if f.get('expr') and norm(f['expr']) != norm(ob.text):
            continue
        return f
    return None


def main(argv):
    if len(argv) >= 2 and argv[0] == '--replay':
        from .replay import replay_file
        return replay_file(argv[1])
    prop = argv[0]
    tier = argv[1] if len(argv) > 1 else os.environ.get('VERIF_TIER', 'quick')
    if tier not in ('quick', 'thorough'):
        tier = 'quick'
    seed = int(os.environ.get('VERIF_SEED', '0') or 0)
    cfg = PROPERTIES[prop]
    t_start = time.time()
    timeout = 10 if tier == 'quick' else 30
    if tier == 'thorough':
        smt.CACHE_DIR = None      # thorough: every obligation is solved afresh
    repo = os.environ.get('VERIF_REPO', '/repo')
    evdir = os.environ.get('VERIF_EVIDENCE_DIR') or os.path.join(VERIF, 'evidence')
    os.makedirs(evdir, exist_ok=True)
    evidence_path = os.path.join(evdir, prop + '.json')
    violations = []
    known_lines = []
    try:
        eng = Engine(repo)
    except Exception as e:
        # the tree does not load (does not compile with the verif tag): nothing can be decided
        print('ERROR: cannot extract SSA from %s: %s' % (repo, e))
        write_evidence(evidence_path, prop, tier, seed, cfg, [], [], {}, time.time() - t_start, broken=str(e))
        return 2
    spec_errors = list(eng.specs.errors)
    known = load_known()
    results = []
    runs = []
    for pk_suffix, short in cfg['functions']:
        full = [p for p in eng.prog.packages if p == 'github.com/itchio/wharf' + pk_suffix]
        if not full:
            spec_errors.append('package %s not found' % pk_suffix)
            continue
        run = eng.analyze(full[0], short)
        runs.append(run)
    # lemmas
    from .lemmas import lemma_obligations
    lemma_names = list(cfg.get('lemmas', []))
    for run in runs:
        for ln in sorted(getattr(run, 'lemmas_used', ())):
            if ln not in lemma_names:
                lemma_names.append(ln)
    lemma_run = lemma_obligations(eng, lemma_names)
    if lemma_run is not None:
        runs.append(lemma_run)
    # solve
    import concurrent.futures
    jobs = []
    for run in runs:
        for o in run.obls:
            if not (o.result and o.result.get('trivial')):
                jobs.append((run, o))
    want_all = (tier == 'thorough')
    from .engine import discharge_many
    discharge_many(jobs, timeout, procs=int(os.environ.get('VERIF_JOBS', '10')))
    if want_all:
        # cross-solver agreement on discharged obligations
        def recheck(ro):
            run, o = ro
            r = o.result
            if r.get('result') != 'unsat' or 'query' not in r:
                return
            rr = smt.solve(r['query'], timeout=timeout, want_all=True)
            o.result['agreement'] = rr.get('per_solver')
            uns = [n for n, v in rr.get('per_solver', {}).items() if v['result'] == 'unsat']
            sat = [n for n, v in rr.get('per_solver', {}).items() if v['result'] == 'sat']
            o.result['agreed'] = len(uns) >= 2
            if sat and r.get('form') == 'ground':
                # a second solver finds a model of a quantifier-free query another one refuted: not discharged
                o.result['disagreement'] = sat
                o.result['result'] = 'disagreement'
                o.result['output'] = 'solvers disagree on a ground query: unsat by %s, sat by %s' % (uns, sat)
        with concurrent.futures.ThreadPoolExecutor(max_workers=5) as ex:
            list(ex.map(recheck, jobs))
    n_obl = 0
    n_ok = 0
    solver_time = {}
    samples = []
    fn_rows = []
    failed = []
    assumptions = set(cfg.get('assumes', []))
    trusted = set()
    for run in runs:
        row = {'function': run.fn['name'], 'obligations': 0, 'discharged': 0, 'gen_s': round(getattr(run, 'gen_time', 0.0), 3),
               'arith': getattr(run, 'mode', 'math'),
               'abstracted': list(run.abstracted)[:30], 'unmodelled_calls': sorted(run.unmodelled)[:40],
               'assumed_contracts_used': sorted(run.assumed_used), 'pure_allowlist_used': sorted(run.pure_used)[:40],
               'inlined': sorted(run.inlined)[:20]}
        if getattr(run, 'unsafe_skipped', 0):
            row['safety_obligations_not_generated'] = run.unsafe_skipped
            trusted.add('%s: index/division safety NOT claimed (flag no-safety: only the explicit clauses are verified)' % run.fn['name'])
        if getattr(run, 'trusted', None):
            row['trusted'] = run.trusted
            trusted.add('%s: contract trusted, body not verified (%s)' % (run.fn['name'], run.trusted))
        for u in run.unmodelled:
            trusted.add('unmodelled call (assumed not to panic; heap havoced): ' + u)
        for u in run.assumed_used:
            trusted.add('assumed contract: ' + u)
        for u in run.pure_used:
            trusted.add('pure allow-list: ' + u)
        if getattr(run, 'mode', 'math') == 'math':
            trusted.add('signed machine arithmetic treated as mathematical in ' + run.fn['name'])
        for e in run.errors:
            n_obl += 1
            row['obligations'] += 1
            failed.append((run, None, 'elab', e))
        for o in run.obls:
            r = o.result or {}
            if o.report_only:
                continue
            n_obl += 1
            row['obligations'] += 1
            for sname, v in (r.get('per_solver') or {}).items():
                solver_time[sname] = solver_time.get(sname, 0.0) + v.get('time', 0.0)
            if ob_ok(o):
                n_ok += 1
                row['discharged'] += 1
                if len(samples) < 14 and o.kind not in ('cover',) and not r.get('trivial'):
                    samples.append({'obligation': o.name, 'clause': o.text[:160], 'result': r.get('result'),
                                    'solver': r.get('solver'), 'time_s': round(r.get('time', 0.0), 3),
                                    'form': r.get('form'), 'query_sha256': r.get('hash')})
            else:
                failed.append((run, o, r.get('result'), r.get('output', '')[:2000]))
        fn_rows.append(row)
    for e in spec_errors:
        n_obl += 1
        failed.append((None, None, 'spec', e))
    # guard: non-vacuous
    if n_obl == 0:
        failed.append((None, None, 'vacuity', 'no obligations were generated for %s' % prop))
    # report
    global REPLAY_DIR
    REPLAY_DIR = os.environ.get('VERIF_REPLAY_DIR') or os.path.join(VERIF, 'replays')
    os.makedirs(os.path.join(REPLAY_DIR, prop), exist_ok=True)
    kf_hit = []
    viol_n = 0
    for run, o, kind, detail in failed:
        if o is not None:
            kf = match_known(known, prop, o)
            if kf is not None:
                line = 'KNOWN-FINDING: property=%s %s %s' % (prop, ob_key(o.name), kf.get('what', ''))
                print(line)
                kf_hit.append({'obligation': ob_key(o.name), 'what': kf.get('what', '')})
                continue
        viol_n += 1
        if o is not None:
            rp = write_replay(prop, run, o, seed, tier)
            tail = '' if rp.get('confirmed') else ' no-failing-input-found'
            print('[%s] %s  FAILED (%s, %s)' % (prop, o.name, o.result.get('result'), o.result.get('solver')))
            print('      clause : %s' % o.text[:300])
            print('      at     : %s' % o.pos)
            if rp.get('model'):
                print('      model  : %s' % json.dumps(rp['model'])[:600])
            if rp.get('replay_note'):
                print('      replay : %s' % rp['replay_note'])
            print('VIOLATION property=%s replay=%s%s' % (prop, rp['path'], tail))
        else:
            name = 'elab' if kind == 'elab' else kind
            fnname = run.oname if run is not None else prop
            path = os.path.join(REPLAY_DIR, prop, '%s_%s_%s.json' % (re.sub(r'\W', '_', fnname), name, hashlib.sha1(detail.encode()).hexdigest()[:8]))
            json.dump({'property': prop, 'obligation': '%s/%s' % (fnname, name), 'detail': detail,
                       'note': 'the contract could not be elaborated against the current code (or a guard failed): '
                               'every obligation of it counts as failed'}, open(path, 'w'), indent=1)
            print('[%s] %s/%s FAILED: %s' % (prop, fnname, name, detail[:400]))
            print('VIOLATION property=%s replay=%s no-failing-input-found' % (prop, path))
    canaries = None
    agreement = None
    if want_all:
        agreement = {'confirmed_by_two_solvers': sum(1 for _, o in jobs if (o.result or {}).get('agreed')),
                     'single_solver_only': sum(1 for _, o in jobs if (o.result or {}).get('result') == 'unsat' and not (o.result or {}).get('agreed')),
                     'disagreements': sum(1 for _, o in jobs if (o.result or {}).get('disagreement'))}
        if not os.environ.get('VERIF_NO_CANARIES') and not os.environ.get('VERIF_REPO'):
            canaries = run_canaries(prop)
            for c in canaries:
                if c['status'] == 'MISSED':
                    print('SELFTEST-MISS: must-fail change %s is no longer caught by %s (machinery regression, not a property violation)' % (c['id'], prop))
    wall = time.time() - t_start
    cov = {
        'obligations': n_obl, 'discharged': n_ok + len(kf_hit) * 0,
        'checker_cmd': 'bin/check %s %s  (gossa: go/ssa NaiveForm of /repo working tree; govc symbolic execution; z3-new 5.1.0 | z3 4.8.12 | cvc5 1.0.3, timeout %ds)' % (prop, tier, timeout),
        'trusted_base': sorted(trusted | assumptions),
        'evaluations': len(jobs), 'distinct_nontrivial': len({ob_key(o.name) for _, o in jobs}),
        'rule': 'one SMT query per named obligation generated from the SSA of the functions under contract; non-trivial = goal not syntactically true; distinct by obligation key (function/kind/clause)',
        'samples': samples[:14] or [{'note': 'no discharged non-trivial obligation'}],
        'functions': fn_rows,
        'solver_time_s': {k: round(v, 2) for k, v in solver_time.items()},
        'known_findings': kf_hit,
        'not_decided': cfg.get('not_decided', ''),
        'bounded': cfg.get('bounded', []),
        'failed': [ob_key(o.name) if o is not None else kind for _, o, kind, _ in failed],
    }
    if agreement is not None:
        cov['cross_solver_agreement'] = agreement
    if canaries is not None:
        cov['must_fail_corpus'] = canaries
    ev = {'property_id': prop, 'tier': tier, 'seed': seed, 'level': 'proof', 'coverage': cov,
          'assumptions': sorted(assumptions | trusted), 'wall_s': round(wall, 2), 'violations': viol_n}
    json.dump(ev, open(evidence_path, 'w'), indent=1)
    print('%s %s: %d obligations, %d discharged, %d known findings, %d violations, %.1fs' %
          (prop, tier, n_obl, n_ok, len(kf_hit), viol_n, wall))
    return 1 if viol_n else 0


def run_canaries(prop):
    """thorough tier: every recorded must-fail change of this property (own corpus + confirmed seeded changes) is
    applied to a scratch copy of the working tree and the QUICK check must report a violation there.  A change that no
    longer applies (the code moved on) is skipped and says so."""
    import shutil, subprocess, tempfile, concurrent.futures
    items = []
    mroot = os.path.join(VERIF, 'selftest', 'mutants')
    for n in sorted(os.listdir(mroot)) if os.path.isdir(mroot) else []:
        try:
            meta = json.load(open(os.path.join(mroot, n, 'meta.json')))
        except Exception:
            continue
        if meta.get('property') == prop:
            items.append((n, os.path.join(mroot, n, 'patch.diff')))
    sroot = os.path.join(VERIF, 'seeded')
    known_missed = set()
    try:
        for r in json.load(open(os.path.join(sroot, 'RESULTS.json'))):
            if r.get('status') != 'CAUGHT':
                known_missed.add(r['id'])
    except Exception:
        pass
    for n in sorted(os.listdir(sroot)) if os.path.isdir(sroot) else []:
        if n.startswith(prop + '-') and os.path.exists(os.path.join(sroot, n, 'patch.diff')) and n not in known_missed:
            items.append((n, os.path.join(sroot, n, 'patch.diff')))
    repo = os.environ.get('VERIF_REPO', '/repo')

    def one(it):
        name, pd = it
        d = tempfile.mkdtemp(prefix='wharf-canary-')
        try:
            subprocess.run(['rsync', '-a', '--exclude', '.git', repo + '/', d + '/'], check=True)
            p = subprocess.run(['patch', '-p1', '-s', '-d', d, '-i', pd], stdout=subprocess.PIPE, stderr=subprocess.STDOUT)
            if p.returncode != 0:
                return {'id': name, 'status': 'SKIPPED (patch does not apply to this tree)'}
            env = dict(os.environ, VERIF_REPO=d, VERIF_EVIDENCE_DIR=d + '/.evidence', VERIF_REPLAY_DIR=d + '/.replays', VERIF_JOBS='5')
            c = subprocess.run([os.path.join(VERIF, 'bin', 'check'), prop, 'quick'], env=env, stdout=subprocess.PIPE,
                               stderr=subprocess.STDOUT, universal_newlines=True)
            failed = []
            try:
                failed = json.load(open(os.path.join(d, '.evidence', prop + '.json')))['coverage'].get('failed', [])
            except Exception:
                pass
            return {'id': name, 'status': 'CAUGHT' if c.returncode == 1 else 'MISSED', 'failed': failed[:3]}
        finally:
            shutil.rmtree(d, ignore_errors=True)
    with concurrent.futures.ThreadPoolExecutor(max_workers=3) as ex:
        return list(ex.map(one, items))


def write_evidence(path, prop, tier, seed, cfg, a, b, c, wall, broken=None):
    ev = {'property_id': prop, 'tier': tier, 'seed': seed, 'level': 'proof',
          'coverage': {'obligations': 1, 'discharged': 0, 'checker_cmd': 'bin/check', 'trusted_base': [],
                       'evaluations': 1, 'distinct_nontrivial': 2, 'explanation': 'extraction failed: %s' % broken},
          'wall_s': round(wall, 2), 'violations': 0}
    json.dump(ev, open(path, 'w'), indent=1)


def write_replay(prop, run, o, seed, tier):
    from .replay import try_replay
    r = o.result or {}
    model = smt.parse_model(r.get('output', '')) if r.get('result') == 'sat' else {}
    keep = {}
    for k, v in model.items():
        k2 = k[2:] if k.startswith('v_') else k
        if re.match(r'^(pc|dq|dr|m|hm|ret|d)!\d+$', k2):
            continue
        keep[k2] = v
    path = os.path.join(REPLAY_DIR, prop, re.sub(r'[^A-Za-z0-9_.\-]', '_', o.name)[:120] + '.json')
    doc = {'property': prop, 'obligation': o.name, 'key': ob_key(o.name), 'kind': o.kind, 'function': run.fn['name'],
           'clause': o.text, 'pos': o.pos, 'solver_result': r.get('result'), 'solver': r.get('solver'),
           'query_form': r.get('form'), 'candidate_model': bool(r.get('candidate_model')),
           'model': keep, 'solver_output': (r.get('output') or '')[:20000], 'tier': tier, 'seed': seed}
    confirmed, note = try_replay(run, o, keep, doc)
    doc['confirmed'] = confirmed
    doc['replay_note'] = note
    json.dump(doc, open(path, 'w'), indent=1)
    return {'path': path, 'confirmed': confirmed, 'model': {k: keep[k] for k in sorted(keep)[:24]}, 'replay_note': note}


if __name__ == '__main__':
    sys.exit(main(sys.argv[1:]))
