"""Symbolic execution of one function under contract: core (heap, merge, loops, obligations)."""
import re

from . import terms as T
from .ssa import CFG
from .state import State, Obligation, map_leaves, same_value, fresh_like, value_leaves
from .values import SliceV, StructV, TupleV, PtrV, ClosureV, SeqV, Unsupported, is_term, Types
from .exec_expr import ExprMixin, Env, SORTS
from .exec_instr import InstrMixin
from .exec_call import CallMixin


import os as _os
BLOCK_COVER = bool(_os.environ.get('VERIF_BLOCK_COVER'))


def slugify(s, n=48):
    s = re.sub(r'\s+', '', s)
    s = re.sub(r'[^A-Za-z0-9_\[\]:.+\-*/%<>=!&|()βα,]', '_', s)
    return s[:n]


class ElabError(Exception):
    pass


class FuncRun(ExprMixin, InstrMixin, CallMixin):

    def __init__(self, prog, specs, fn, spec, engine=None, bounded=None):
        self.prog = prog
        self.specs = specs
        self.fn = fn
        self.spec = spec
        self.engine = engine
        self.ty = engine.ty if engine else Types(prog)
        self.pkg = fn['pkg']
        self.mode = spec.arith if spec else 'math'
        self.hyps = []
        self.obls = []
        self.mute = 0
        self.recorders = []
        self.key_recorders = []
        self.dry_fresh_stack = []
        self.frame_counter = 0
        self.regs = {}
        self.heap0 = {}
        self.heap_epochs = {}
        self.heap_sorts = {}
        self.event_counter = 0
        self.abstracted = []
        self.unmodelled = set()
        self.assumed_used = set()
        self.pure_used = set()
        self.inlined = set()
        self.facted = set()
        self.fnvals = {}
        self.closure_slots = {}
        self.renamed_used = set()
        self.set_at_last = {}
        self.boxrefs = {}
        self.rangevis = {}
        self.escaped_closures = []
        self.kind_counts = {}
        self.rec_seen = {}
        self.rec_defs = []
        self.rec_depth = 0
        self.strconsts = {}
        self.asserted_at = set()
        self.iface_static = {}
        self.alloc_refs = []
        self.param_refs = []
        self.ghost_cells = {}
        self.errors = []
        self.cfgs = {}
        self.bounded = bounded
        self.clause_hits = {}
        self.entry_state = State()
        pk, short = prog.short(fn['name'])
        self.short = short
        self.oname = pk.rsplit('/', 1)[-1] + '.' + short.replace('(*', '').replace('(', '').replace(')', '')

    # ------------------------------------------------------------ bookkeeping
    def cfg(self, fn):
        c = self.cfgs.get(fn['name'])
        if c is None:
            c = CFG(fn)
            from .baseline import loop_alignment
            al = loop_alignment(fn)
            if al:
                # the function gained or lost loops: `loop k` keeps meaning the loop it meant when the contract was written
                c.loop_no = {h: al.get(h, c.loop_no[h]) for h in c.loop_no}
                self.renamed_used.add('%s: loops re-numbered to their baseline ordinals %s' % (
                    fn['name'].rsplit('/', 1)[-1], sorted(c.loop_no.values())))
            self.cfgs[fn['name']] = c
        return c

    def add_hyp(self, t, state=None):
        if self.mute:
            return
        if state is not None:
            t = T.implies(state.pc, t)
        if t[0] == 'b' and t[1]:
            return
        self.hyps.append(t)

    def add_fact_once(self, t):
        if self.mute or t in self.facted:
            return
        self.facted.add(t)
        if t[0] == 'b':
            return
        self.hyps.append(t)

    def assume_facts(self, v, tn):
        for f in self.ty.facts(v, tn, self.mode == 'wrap'):
            self.add_fact_once(f)

    SAFETY_KINDS = ('bounds', 'div0', 'make', 'conv', 'panic')

    def oblige(self, kind, cond, state, text='', pos='', clause=None, slug=None, report_only=False, fnname=None):
        """cond must hold whenever state.pc holds."""
        if self.mute:
            return None
        if kind in self.SAFETY_KINDS and self.spec is not None and 'no-safety' in self.spec.flags:
            # function only partially under contract: its index/division safety is NOT claimed (listed in evidence)
            self.unsafe_skipped = getattr(self, 'unsafe_skipped', 0) + 1
            return None
        if clause is not None:
            self.clause_hits[id(clause)] = self.clause_hits.get(id(clause), 0) + 1
        goal = T.implies(state.pc, cond)
        base = fnname or self.oname
        k = (base, kind)
        self.kind_counts[k] = self.kind_counts.get(k, 0) + 1
        n = self.kind_counts[k]
        if slug is None:
            slug = clause.slug() if clause is not None else slugify(text)
        name = '%s/%s#%d:%s' % (base, kind, n, slug)
        o = Obligation(name, kind, self.fn['name'], text, pos, len(self.hyps), goal, report_only=report_only)
        o.clause = clause
        if goal[0] == 'b' and goal[1]:
            o.result = {'result': 'unsat', 'solver': 'trivial', 'time': 0.0, 'trivial': True}
        self.obls.append(o)
        return o

    def cover(self, what, state, pos='', before=None):
        """vacuity canary: the path condition must be satisfiable here.  `before` (hyps count, pc) describes the same
        point before an assumed postcondition was added: code that was already unreachable is not a vacuity problem."""
        if self.mute:
            return
        k = (self.oname, 'cover')
        self.kind_counts[k] = self.kind_counts.get(k, 0) + 1
        name = '%s/cover#%d:%s' % (self.oname, self.kind_counts[k], what)
        o = Obligation(name, 'cover', self.fn['name'], what, pos, len(self.hyps), T.not_(state.pc), expect_sat=True)
        if before is not None:
            ob = Obligation(name + '~before', 'cover', self.fn['name'], what, pos, before[0], T.not_(before[1]), expect_sat=True)
            ob.report_only = True
            ob.is_before = True
            self.obls.append(ob)
            o.pair = ob
        self.obls.append(o)

    def record_write(self, what, key=None):
        for r in self.recorders:
            r.add(what)
        if what[0] == 'heap':
            for kr in self.key_recorders:
                cur = kr.get(what[1], set())
                if cur is None:
                    continue
                if key is None:
                    kr[what[1]] = None
                else:
                    cur.add(key)
                    kr[what[1]] = cur

    def abstract(self, what):
        if not self.mute and what not in self.abstracted:
            self.abstracted.append(what)

    # ------------------------------------------------------------ heap
    def heap_get(self, state, name, sort):
        """current version of a heap component in `state`.  A component that was never touched in this state is the
        entry version -- unless everything was havoced since (epoch > 0: then it is the version of that event),
        and with every `*x` wildcard havoc recorded in the state applied to it."""
        a = state.heap.get(name)
        if a is not None:
            return a
        if sort is not None:
            self.heap_sorts[name] = sort
        elif name in self.heap_sorts:
            sort = self.heap_sorts[name]
        ep = state.heap.get('#epoch')
        epn = ep[1] if ep is not None else 0
        if epn == 0:
            a = self.heap0.get(name)
            if a is None:
                if sort is None:
                    return None
                a = T.V('H0|' + name, sort)
                self.heap0[name] = a
        else:
            key = (name, epn)
            a = self.heap_epochs.get(key)
            if a is None:
                if sort is None:
                    base0 = self.heap0.get(name)
                    sort = T.sort_of(base0) if base0 is not None else None
                if sort is None:
                    return None
                a = T.V('HE%d|%s' % (epn, name), sort)
                self.heap_epochs[key] = a
        wild = state.heap.get('#wild')
        if wild and name.startswith('F|') and a is not None:
            srt = T.sort_of(a)
            for ref, ev, ep_at in wild:
                if ep_at != epn:
                    continue
                a = T.store(a, ref, T.V('HW%d|%s' % (ev, name), srt[2]))
            state.heap[name] = a
        return a

    def type_at(self, tn, path):
        for p in path:
            if p.startswith('#'):
                return 'int'
            tn = dict(self.ty.struct_fields(tn))[p]
        return tn

    def heap_loc(self, ptr):
        """-> (name prefix, keys, storage type name)"""
        if ptr.kind == 'box' and ptr.c is not None:
            ptr = PtrV('box', ptr.a, ptr.b, None, ptr.path)
        # one name per memory location: a nested path (&x.a.b, &s[i].f) names the same component as the leaf b of a
        # whole-value access to x.a (resp. the leaf f of s[i]) -- `lead` is the part of the path that becomes leaf path
        if ptr.kind == 'field':
            fname = ptr.path[0]
            ft = dict(self.ty.struct_fields(ptr.b))[fname]
            rest = ptr.path[1:]
            return 'F|%s|%s' % (ptr.b, fname), [ptr.a], self.type_at(ft, rest), tuple(rest)
        if ptr.kind == 'elem':
            return 'E|%s' % ptr.c, [ptr.a, ptr.b], self.type_at(ptr.c, ptr.path), tuple(ptr.path)
        if ptr.kind == 'box':
            return 'B|%s' % ptr.b, [ptr.a], self.type_at(ptr.b, ptr.path), tuple(ptr.path)
        raise Unsupported('heap_loc of %r' % (ptr,))

    def leaf_name(self, pre, p):
        if not p:
            return pre
        return pre + '/' + '.'.join(p)

    def load(self, state, ptr):
        if isinstance(ptr, PtrV) and ptr.kind == 'cell':
            if ptr.a not in state.cells:
                raise Unsupported('load from unallocated cell %r' % (ptr.a,))
            v = state.cells[ptr.a]
            if ptr.a in state.volatile:
                v = fresh_like(v, 'vol')
            for p in ptr.path:
                if isinstance(v, StructV):
                    v = v.fields[p]
                else:
                    raise Unsupported('cell path %r' % (ptr.path,))
            return v
        if not isinstance(ptr, PtrV):
            raise Unsupported('load through %r' % (ptr,))
        pre, keys, tn, lead = self.heap_loc(ptr)
        vals = []
        for p, s, lt in self.ty.leaves(tn):
            name = self.leaf_name(pre, lead + tuple(p))
            if len(keys) == 1:
                arr = self.heap_get(state, name, T.ARR(T.INT, s))
                vals.append(T.select(arr, keys[0]))
            else:
                arr = self.heap_get(state, name, T.ARR(T.INT, T.ARR(T.INT, s)))
                vals.append(T.select(T.select(arr, keys[0]), keys[1]))
            if (p and p[-1] == '#base') or (not (p and p[-1].startswith('#')) and self.ty.kind(lt) in ('pointer', 'map', 'chan')):
                self.entry_refs_old(name, len(keys))
        v = self.ty.unflatten(vals, tn)
        self.assume_facts(v, tn)
        return v

    def new_watermark(self):
        """a point in allocation order: what exists now is at or below it, what this run allocates later is above"""
        wm = T.fresh('wm')
        if not self.mute:
            prev = self.alloc_refs[-1] if self.alloc_refs else self.ALLOC0
            self.hyps.append(T.le(prev, wm))
            if not self.alloc_refs:
                self.hyps.append(T.le(T.ZERO, self.ALLOC0))
            self.alloc_refs.append(wm)
        return wm

    def entry_refs_old(self, name, nkeys):
        """references held in the heap at entry designate objects that exist at entry: at or below the watermark
        (the convention asserted for parameters, extended to what they reach) -- so nothing allocated by this run
        aliases them."""
        a0 = self.heap0.get(name)
        if a0 is None or self.mute or ('entryrefs', name) in self.facted:
            return
        self.facted.add(('entryrefs', name))
        k = T.fresh_name('k')
        # only objects that exist at entry (k <= alloc0): the entry heap says nothing about what this run (or a callee
        # whose contract returns a fresh object) allocates later
        if nkeys == 1:
            self.hyps.append(T.forall([(k, T.INT)], T.implies(T.le(T.V(k), self.ALLOC0), T.le(T.select(a0, T.V(k)), self.ALLOC0))))
        else:
            i = T.fresh_name('i')
            self.hyps.append(T.forall([(k, T.INT), (i, T.INT)], T.implies(T.le(T.V(k), self.ALLOC0),
                                                                          T.le(T.select(T.select(a0, T.V(k)), T.V(i)), self.ALLOC0))))

    def store(self, state, ptr, val):
        if isinstance(ptr, PtrV) and ptr.kind == 'cell':
            self.record_write(('cell', ptr.a))
            if not ptr.path:
                state.cells[ptr.a] = val
                return
            root = state.cells.get(ptr.a)
            state.cells[ptr.a] = self._update_path(root, ptr.path, val)
            return
        if not isinstance(ptr, PtrV):
            raise Unsupported('store through %r' % (ptr,))
        pre, keys, tn, lead = self.heap_loc(ptr)
        if isinstance(val, ClosureV):
            idt = T.fresh('fnval')
            self.fnvals[idt] = val
            if ptr.kind != 'elem' and not self.mute and val not in self.escaped_closures:
                self.escaped_closures.append(val)        # stored in an object: may be called from any task
            if ptr.kind == 'elem':
                # function literals put into a (variadic) argument slice: found again by fork/join combinators
                self.closure_slots[(ptr.a, ptr.b)] = val
            val = idt
        flat = self.ty.flatten(val, tn)
        for (p, s, lt), v in zip(self.ty.leaves(tn), flat):
            name = self.leaf_name(pre, lead + tuple(p))
            self.record_write(('heap', name), keys[0])
            if len(keys) == 1:
                arr = self.heap_get(state, name, T.ARR(T.INT, s))
                state.heap[name] = T.store(arr, keys[0], v)
            else:
                arr = self.heap_get(state, name, T.ARR(T.INT, T.ARR(T.INT, s)))
                inner = T.select(arr, keys[0])
                state.heap[name] = T.store(arr, keys[0], T.store(inner, keys[1], v))

    def _update_path(self, root, path, val):
        if not path:
            return val
        if not isinstance(root, StructV):
            raise Unsupported('store path into non-struct')
        f = dict(root.fields)
        f[path[0]] = self._update_path(root.fields[path[0]], path[1:], val)
        return StructV(root.tname, f)

    def havoc_heap(self, state, names=None):
        if names is None:
            names = set(state.heap) | set(self.heap0)
        for n in names:
            cur = self.heap_get(state, n, None) if (n in state.heap or n in self.heap0) else None
            if cur is None:
                continue
            self.record_write(('heap', n))
            state.heap[n] = T.fresh('hv|' + n, T.sort_of(cur))

    def havoc_all_heap(self, state):
        """after an unmodelled call: every heap component may have changed -- including those not touched yet."""
        self.event_counter += 1
        for n in list(state.heap):
            if n.startswith('#'):
                continue
            self.record_write(('heap', n))
            del state.heap[n]
        state.heap['#epoch'] = T.I(self.event_counter)
        state.heap.pop('#wild', None)
        self.record_write(('heapall', None))

    def havoc_at_ref(self, state, ref):
        """`modifies *x` with x of unknown dynamic type: every struct field component may change at that reference."""
        self.event_counter += 1
        ev = self.event_counter
        ep = state.heap.get('#epoch')
        epn = ep[1] if ep is not None else 0
        for n in list(state.heap):
            if n.startswith('F|'):
                a = state.heap[n]
                self.record_write(('heap', n), ref)
                state.heap[n] = T.store(a, ref, T.V('HW%d|%s' % (ev, n), T.sort_of(a)[2]))
        for n in list(self.heap0):
            if n.startswith('F|') and n not in state.heap:
                a = self.heap_get(state, n, None)
                if a is not None:
                    self.record_write(('heap', n), ref)
                    state.heap[n] = T.store(a, ref, T.V('HW%d|%s' % (ev, n), T.sort_of(a)[2]))
        state.heap['#wild'] = tuple(state.heap.get('#wild', ())) + ((ref, ev, epn),)
        self.record_write(('wild', None))

    # maps
    def map_names(self, tn):
        un, t = self.ty.under(tn)
        return 'MD|' + un, 'MV|' + un, t['elem']

    def map_has(self, state, m, tn, key):
        md, mv, et = self.map_names(tn)
        arr = self.heap_get(state, md, T.ARR(T.INT, T.AIB))
        return T.select(T.select(arr, m), key)

    def map_lookup(self, state, m, tn, key, raw=False):
        md, mv, et = self.map_names(tn)
        vals = []
        for p, s, lt in self.ty.leaves(et):
            name = mv if not p else mv + '|' + '.'.join(p)
            arr = self.heap_get(state, name, T.ARR(T.INT, T.ARR(T.INT, s)))
            vals.append(T.select(T.select(arr, m), key))
            if (p and p[-1] == '#base') or (not (p and p[-1].startswith('#')) and self.ty.kind(lt) in ('pointer', 'map', 'chan')):
                self.entry_refs_old(name, 2)       # what a map that exists at entry holds exists at entry
        v = self.ty.unflatten(vals, et)
        self.assume_facts(v, et)
        return v

    def map_update(self, state, m, tn, key, val):
        md, mv, et = self.map_names(tn)
        arr = self.heap_get(state, md, T.ARR(T.INT, T.AIB))
        self.record_write(('heap', md), m)
        state.heap[md] = T.store(arr, m, T.store(T.select(arr, m), key, T.TRUE))
        flat = self.ty.flatten(val, et)
        for (p, s, lt), v in zip(self.ty.leaves(et), flat):
            name = mv if not p else mv + '|' + '.'.join(p)
            a2 = self.heap_get(state, name, T.ARR(T.INT, T.ARR(T.INT, s)))
            self.record_write(('heap', name), m)
            state.heap[name] = T.store(a2, m, T.store(T.select(a2, m), key, v))

    ALLOC0 = T.V('alloc0')

    def fresh_ref(self, prefix='ref'):
        """a reference allocated by this run: above the watermark alloc0 (every reference that exists at entry is
        at or below it -- a modelling convention, asserted for the parameters) and above all earlier allocations."""
        r = T.fresh(prefix)
        for d_ in self.dry_fresh_stack:
            d_.add(r)
        if not self.mute:
            prev = self.alloc_refs[-1] if self.alloc_refs else self.ALLOC0
            self.hyps.append(T.lt(prev, r))
            if not self.alloc_refs:
                self.hyps.append(T.le(T.ZERO, self.ALLOC0))
            self.alloc_refs.append(r)
        return r

    # ------------------------------------------------------------ merging
    def merge(self, incoming):
        """incoming: list of (pred, State) -> (State, {pred: pc})"""
        incoming = [(p, s) for p, s in incoming if not (s.pc[0] == 'b' and not s.pc[1])]
        if not incoming:
            return None, {}
        edge_pcs = {p: s.pc for p, s in incoming}
        if len(incoming) == 1:
            return incoming[0][1].copy(), edge_pcs
        states = [s for _, s in incoming]
        pc = T.or_(*[s.pc for s in states])
        if pc[0] != 'b':
            pcv = T.fresh('pc', T.BOOL)
            if not self.mute:
                self.hyps.append(T.eq(pcv, pc))
            pc = pcv
        out = State(pc)
        keys = []
        seen = set()
        for s in states:
            for k in s.cells:
                if k not in seen:
                    seen.add(k)
                    keys.append(k)
        for k in keys:
            have = [s for s in states if k in s.cells]
            v0 = have[0].cells[k]
            if all(same_value(v0, s.cells[k]) for s in have[1:]):
                if len(have) < len(states) and isinstance(k, tuple) and k and k[0] == 'deferflag':
                    pass
                else:
                    out.cells[k] = v0
                    continue
            if isinstance(k, tuple) and k and k[0] == 'deferflag':
                vals = [(s, s.cells.get(k, T.FALSE)) for s in states]
            else:
                vals = [(s, s.cells[k]) for s in have]
            try:
                out.cells[k] = self.merge_values(vals, 'm')
            except Unsupported as e:
                self.abstract('merge of variable %r: %s' % (k, e))
                out.cells[k] = v0
        hkeys = set()
        for s in states:
            hkeys.update(s.heap)
        eps = [s.heap.get('#epoch', T.ZERO) for s in states]
        wilds = [tuple(s.heap.get('#wild', ())) for s in states]
        if any(e != eps[0] for e in eps) or any(w != wilds[0] for w in wilds):
            # different havoc histories: materialise every component seen anywhere in each state
            allnames = set(self.heap0) | set(k_ for s in states for k_ in s.heap if not k_.startswith('#')) | set(n for (n, e) in self.heap_epochs)
            for s in states:
                for n in allnames:
                    if n not in s.heap:
                        v = self.heap_get(s, n, None)
                        if v is not None:
                            s.heap[n] = v
            if any(e != eps[0] for e in eps):
                # components nobody touched yet: unknown from here on
                self.event_counter += 1
                out.heap['#epoch'] = T.I(self.event_counter)
            else:
                if eps[0] != T.ZERO:
                    out.heap['#epoch'] = eps[0]
                # same epoch, different wildcard havocs: applying all of them over-approximates every branch
                uw = []
                for w in wilds:
                    for e_ in w:
                        if e_ not in uw:
                            uw.append(e_)
                out.heap['#wild'] = tuple(uw)
            hkeys = set(k_ for s in states for k_ in s.heap)
        else:
            if eps[0] != T.ZERO:
                out.heap['#epoch'] = eps[0]
            if wilds[0]:
                out.heap['#wild'] = wilds[0]
        for k in hkeys:
            if k.startswith('#'):
                continue
            vals = []
            srt_ = None
            for s in states:
                if k in s.heap:
                    srt_ = T.sort_of(s.heap[k])
                    break
            for s in states:
                vals.append((s, s.heap[k] if k in s.heap else self.heap_get(s, k, srt_)))
            v0 = vals[0][1]
            if all(v == v0 for _, v in vals[1:]):
                out.heap[k] = v0
            else:
                out.heap[k] = self.merge_values(vals, 'hm|' + k)
        vol = frozenset()
        for s in states:
            vol = vol | s.volatile
        out.volatile = vol
        # defers: longest list (others must be prefixes)
        best = max(states, key=lambda s: len(s.defers))
        out.defers = best.defers
        return out, edge_pcs

    def merge_values(self, vals, prefix):
        """vals: list of (state, value) ; names the merged value with guarded equalities."""
        v0 = vals[0][1]
        if self.mute:
            return fresh_like(v0, prefix) if not isinstance(v0, (PtrV, ClosureV)) else v0
        # check shapes and build fresh
        res = fresh_like(v0, prefix)
        if isinstance(v0, (PtrV, ClosureV)):
            for _, v in vals[1:]:
                map_leaves(lambda a, b: a, v0, v)
            return v0
        for s, v in vals:
            eqs = []
            map_leaves(lambda a, b: (eqs.append(T.eq(a, b)), a)[1], res, v)
            self.hyps.append(T.implies(s.pc, T.and_(*eqs)))
        if is_term(res):
            # an interface value that is the same concrete type on every non-nil path keeps its static type
            stat = set()
            for _, v in vals:
                if v == T.ZERO:
                    continue
                stat.add(self.iface_static[v][0] if v in self.iface_static else None)
            if len(stat) == 1 and None not in stat:
                self.iface_static[res] = (stat.pop(), self.uf_pay(res))
        return res

    # ------------------------------------------------------------ running a CFG
    def new_frame(self):
        self.frame_counter += 1
        return self.frame_counter

    def run_function(self, fn, frame, state, args, bindings, fspec, depth=0):
        """execute fn's CFG from `state`; returns (exit_state, results list) ; exit_state None if no return reachable."""
        if depth > 12:
            raise Unsupported('inline depth')
        cfg = self.cfg(fn)
        ctx = {'fn': fn, 'frame': frame, 'cfg': cfg, 'spec': fspec, 'returns': [], 'depth': depth,
               'params': {p['name']: a for p, a in zip(fn['params'], args)},
               'freevars': {p['name']: b for p, b in zip(fn['freevars'], bindings)},
               'cellnames': None, 'loopinfo': {}}
        state = state.copy()
        saved_defers = state.defers
        state.defers = ()
        in_states = {0: [(None, state)]}
        self.run_blocks(ctx, cfg.order, in_states, skip_header=None)
        rets = ctx['returns']
        if not rets:
            return None, None
        st, _ = self.merge([(i, s) for i, (s, r) in enumerate(rets)])
        if st is None:
            return None, None
        nres = len(fn['results'])
        results = []
        for j in range(nres):
            vals = [(s, r[j]) for (s, r) in rets if not (s.pc[0] == 'b' and not s.pc[1])]
            v0 = vals[0][1]
            if all(same_value(v0, v) for _, v in vals[1:]):
                results.append(v0)
            else:
                results.append(self.merge_values(vals, 'ret'))
        st.defers = saved_defers
        return st, results

    def run_blocks(self, ctx, order, in_states, skip_header=None, region=None):
        cfg = ctx['cfg']
        exits = []
        for b in order:
            if region is not None and b not in region:
                continue
            inc = in_states.get(b)
            if not inc:
                continue
            st, edge_pcs = self.merge(inc)
            if st is None:
                continue
            if b in cfg.loops and b != skip_header:
                st = self.enter_loop(ctx, b, st)
                if st is None:
                    continue
            blk = cfg.blocks[b]
            ctx['edge_pcs'] = edge_pcs
            ctx['block'] = b
            if BLOCK_COVER and not self.mute and ctx['frame'] == self.top_frame:
                # developer aid (VERIF_BLOCK_COVER=1, never set by a registered check): is this block reachable under
                # the contract's precondition?  An unreachable block is code no obligation speaks about.
                pos_ = next((i_.get('pos') for i_ in blk['instrs'] if i_.get('pos')), '')
                self.cover('block%d-%s@%s' % (b, blk.get('comment', ''), pos_), st)
            outs = self.exec_block(ctx, blk, st)
            for succ, s2 in outs:
                if not self.mute and ctx['spec'] is not None:
                    self.check_loop_exits(ctx, b, succ, s2)
                if (b, succ) in cfg.back:
                    if region is not None and succ == skip_header:
                        exits.append(('back', b, succ, s2))
                    else:
                        self.close_loop(ctx, succ, s2, b)
                elif region is not None and succ not in region:
                    exits.append(('exit', b, succ, s2))
                else:
                    in_states.setdefault(succ, []).append((b, s2))
        return exits

    def check_loop_exits(self, ctx, b, succ, st):
        """`exit-ensures` clauses of every loop this edge leaves (normal termination or break)"""
        cfg = ctx['cfg']

        def returns_at_once(bi, depth=0):
            # an edge into a block that (through plain jumps) ends in `return` is an early return, not the end of the loop
            blk_ = cfg.blocks[bi]
            last = blk_['instrs'][-1] if blk_['instrs'] else None
            if last is None:
                return False
            if last['op'] in ('Return', 'Panic'):
                return True
            if last['op'] == 'Jump' and depth < 4 and len(blk_['succs']) == 1:
                return returns_at_once(blk_['succs'][0], depth + 1)
            return False
        for header, body in cfg.loops.items():
            if b in body and succ not in body:
                n, lspec = self.loop_spec(ctx, header)
                if lspec is None or not lspec.exit_ensures:
                    continue
                # go/ssa labels the block a loop falls into when it ends or is broken out of `<kind>.done`; any other edge
                # out of the body that runs straight into a `return` is an early return, not the end of the loop
                is_done = (cfg.blocks[succ].get('comment') or '').endswith('.done')
                if not is_done and returns_at_once(succ):
                    continue        # an early `return` from inside the body (a `break` lands where the normal exit lands)
                env = self.make_env(ctx, st, b)
                fnname = self.oname if ctx['frame'] == self.top_frame else self.inline_name(ctx)
                for c in lspec.exit_ensures:
                    try:
                        t = self.eval_bool(c.parse(), env)
                        self.oblige('inv-exit', t, st, c.text, c.src, clause=c, slug='L%d-%s' % (n, c.slug()), fnname=fnname)
                    except Unsupported as e:
                        self.elab_fail('loop %d exit-ensures %r: %s' % (n, c.text, e), c)

    # ------------------------------------------------------------ loops
    def loop_spec(self, ctx, header):
        spec = ctx['spec']
        n = ctx['cfg'].loop_no[header]
        if spec is not None and n in spec.loops:
            return n, spec.loops[n]
        return n, None

    def cellnames_for(self, ctx, at_block=None):
        """name -> (cellid, type) for the Allocs of ctx's function (latest by position wins; name#k selects k-th)."""
        fn = ctx['fn']
        frame = ctx['frame']
        by = {}
        for blk in fn['blocks']:
            for ins in blk['instrs']:
                if ins['op'] == 'Alloc' and ins.get('name'):
                    by.setdefault(ins['name'], []).append((ins.get('pos') or '', blk['idx'], ins))
        out = {}
        cfg = ctx['cfg']
        for name, lst in by.items():
            for k, (pos, bidx, ins) in enumerate(lst):
                out['%s#%d' % (name, k + 1)] = ((frame, ins['id']), ins['elem'])
            cands = lst
            if at_block is not None:
                dom = [x for x in lst if cfg.dominates(x[1], at_block)]
                if dom:
                    cands = dom
            pos, bidx, ins = cands[-1]
            out[name] = ((frame, ins['id']), ins['elem'])
        # free variables are cells of an enclosing frame
        for fvname, b in ctx['freevars'].items():
            if isinstance(b, PtrV) and b.kind == 'cell' and not b.path:
                for p in fn['freevars']:
                    if p['name'] == fvname:
                        out.setdefault(fvname, (b.a, self.ty.elem(p['type'])))
        if frame == self.top_frame:
            for nm, (cid, et) in getattr(self, 'transitive_fv', {}).items():
                out.setdefault(nm, (cid, et))
        for g, (cid, sort) in self.ghost_cells.items():
            out[g] = (cid, None)
        # a variable that was purely renamed since the contracts were written answers to its old name too
        from .baseline import renames
        for old_, new_ in renames(fn).items():
            if old_ not in out and new_ in out:
                out[old_] = out[new_]
                self.renamed_used.add('%s: %s -> %s' % (fn['name'].rsplit('/', 1)[-1], old_, new_))
        self.loop_aliases(ctx, at_block, out)
        return out

    def loop_aliases(self, ctx, at_block, out):
        """a loop that changed FORM since the contracts were written (range over a slice <-> counted loop with an index)
        keeps answering to the name its counter had: `rangeindex[#k]` of a loop that is now `for v := 0; ..; v++` is v-1
        at the loop head (the index last processed) and v elsewhere; the index variable v of a loop that is now
        `for v := range s` is (hidden counter)+1 at the head.  These are definitions of contract names, not assumptions:
        the invariants written over them are checked as usual."""
        from .baseline import load as load_baseline, loop_shapes
        fn = ctx['fn']
        base = load_baseline().get(fn['name'])
        if not base or not base.get('loops'):
            return
        cache = self.__dict__.setdefault('_loopshapes', {})
        cur = cache.get(fn['name'])
        if cur is None:
            cur = cache[fn['name']] = loop_shapes(fn)
        bl = base['loops']
        cfg = ctx['cfg']
        frame = ctx['frame']
        pairs = []
        for c in cur:
            h = c.get('hdr')
            n = cfg.loop_no.get(h)
            if n is not None and 1 <= n <= len(bl):
                pairs.append((n - 1, h, bl[n - 1], c))
        pairs.sort(key=lambda x: x[0])
        if len(bl) == len(cur) and all(b.get('kind') == c.get('kind') and b.get('ri') == c.get('ri') for _, _, b, c in pairs):
            return
        derived = {}
        was_range = []
        for n, h, b, c in pairs:
            inside = at_block is not None and at_block in cfg.loops[h]
            if b.get('ri'):
                nm = 'rangeindex#%d' % b['ri']
                if c.get('riid'):
                    out[nm] = ((frame, c['riid']), 'int')
                    was_range.append((n, h, nm, None))
                elif c.get('ivid'):
                    out.pop(nm, None)
                    derived[nm] = ((frame, c['ivid']), -1 if at_block == h else 0, 'int')
                    was_range.append((n, h, nm, derived[nm]))
                    self.renamed_used.add('%s: loop %d is now a counted loop; rangeindex := %s - 1 at its head' % (
                        fn['name'].rsplit('/', 1)[-1], n + 1, c['iv']))
                else:
                    out.pop(nm, None)
            elif b.get('iv') and c.get('riid') and c.get('key') == b['iv']:
                v = b['iv']
                if at_block == h:
                    derived[v] = ((frame, c['riid']), 1, 'int')
                elif not inside and at_block is not None and cfg.dominates(h, at_block):
                    derived[v] = ((frame, c['riid']), 0, 'int')
                self.renamed_used.add('%s: loop %d is now a range loop; %s := hidden counter + 1 at its head' % (
                    fn['name'].rsplit('/', 1)[-1], n + 1, v))
        # the unqualified name: the innermost enclosing loop that was a range loop, else the last one before this point
        if was_range and at_block is not None:
            enc = [x for x in was_range if at_block in cfg.loops[x[1]]]
            pick = None
            if enc:
                pick = min(enc, key=lambda x: len(cfg.loops[x[1]]))
            else:
                dom = [x for x in was_range if cfg.dominates(x[1], at_block)]
                if dom:
                    pick = dom[-1]
            if pick is not None:
                if pick[3] is not None:
                    out.pop('rangeindex', None)
                    derived['rangeindex'] = pick[3]
                else:
                    out['rangeindex'] = out[pick[2]]
        if derived:
            out['#derived'] = derived

    def make_env(self, ctx, state, header=None):
        names = dict(self.base_names)
        if ctx['frame'] != self.top_frame:
            # inside an inlined closure: its parameters are visible by name
            for p in ctx['fn']['params']:
                names[p['name']] = (ctx['params'][p['name']], p['type'])
            from .baseline import renames
            for old_, new_ in renames(ctx['fn']).items():
                if old_ not in names and new_ in names:
                    names[old_] = names[new_]
        cn = self.cellnames_for(ctx, header)
        return Env(names, state, self.entry_state, cn, self.pkg, prefer_cells=True)

    def enter_loop(self, ctx, header, st):
        cfg = ctx['cfg']
        n, lspec = self.loop_spec(ctx, header)
        body = cfg.loops[header]
        fnname = self.oname if ctx['frame'] == self.top_frame else self.inline_name(ctx)
        if self.bounded is not None:
            raise Unsupported('bounded mode not implemented for loops')
        # 1. discover the write set W of the loop body as a fixpoint: run the body (muted) from the entry state
        #    with W havoced, collect the writes, repeat until W is stable.  At the fixpoint the havoced state
        #    over-approximates every loop-head state, so the writes seen from it are all the writes there are.
        writes = set()
        order = [b for b in cfg.order if b in body]
        keys_found = {}
        for _round in range(8):
            found = set()
            keys_found = {}
            serial0 = T.counter_peek()
            dry_fresh = set()
            self.dry_fresh_stack.append(dry_fresh)
            self.recorders.append(found)
            self.key_recorders.append(keys_found)
            self.mute += 1
            try:
                dry = st.copy()
                self.apply_havoc(dry, writes, 'dry')
                try:
                    self.run_blocks(ctx, order, {header: [(None, dry)]}, skip_header=header, region=body)
                except Unsupported as e:
                    self.mute -= 1
                    self.abstract('loop %d of %s: dry run failed (%s); everything havoced' % (n, fnname, e))
                    self.mute += 1
                    found.add(('heapall', None))
                    for k in st.cells:
                        found.add(('cell', k))
            finally:
                self.mute -= 1
                self.recorders.pop()
                self.key_recorders.pop()
                self.dry_fresh_stack.pop()
            if found <= writes:
                break
            writes |= found
        else:
            writes.add(('heapall', None))
            for k in st.cells:
                writes.add(('cell', k))
        for r in self.recorders:
            r.update(writes)
        # heap components written only at keys that are stable across iterations (terms over values the loop does
        # not change) are havoced at those keys only; everything else of the component is framed
        stable_keys = {}
        fresh_comps = set()
        for name, ks in keys_found.items():
            if ks is None or ('heapall', None) in writes:
                continue
            ok = True
            stable = []
            fresh_too = False
            for k in ks:
                if k in dry_fresh:
                    fresh_too = True      # an object allocated inside the loop: invisible below the watermark
                    continue
                for vn in T.free_vars(k):
                    if T.var_serial(vn) >= serial0:
                        ok = False
                        break
                if not ok:
                    break
                stable.append(k)
            if not ok and lspec is not None and 'fresh-writes' in lspec.flags:
                # the contract says: this loop writes the component only inside objects allocated by this run (checked at
                # the back edge): everything at or below the entry watermark is framed
                ok = True
                fresh_too = True
                fresh_comps.add(name)
                stable = [k for k in ks if k not in dry_fresh and all(T.var_serial(vn) < serial0 for vn in T.free_vars(k))]
            if ok and len(stable) <= 6:
                stable_keys[name] = (sorted(stable, key=repr), fresh_too)
        for kr in self.key_recorders:
            for name, ks in keys_found.items():
                if name in stable_keys and kr.get(name, set()) is not None:
                    cur = kr.get(name, set())
                    cur.update(stable_keys[name][0])
                    if stable_keys[name][1]:
                        kr[name] = None if False else cur
                    kr[name] = cur
                else:
                    kr[name] = None
        for d_ in self.dry_fresh_stack:
            d_.update(dry_fresh)
        ctx['stable_keys'] = stable_keys
        # 2. invariants: init
        invs = list(lspec.invariants) if lspec else []
        auto = self.auto_invariants(ctx, header, st, writes)
        env0 = self.make_env(ctx, st, header)
        for c in invs:
            try:
                t = self.eval_bool(c.parse(), env0)
                self.oblige('inv-init', t, st, c.text, c.src, clause=c, slug='L%d-%s' % (n, c.slug()), fnname=fnname)
            except Unsupported as e:
                self.elab_fail('loop %d invariant %r: %s' % (n, c.text, e), c)
        # 3. havoc
        h = st.copy()
        self.apply_havoc(h, writes, 'lp', stable_keys)
        # everything that exists at the loop head is older than what the body allocates (existing(x) in invariants)
        self.new_watermark()
        # 4. assume invariants
        env1 = self.make_env(ctx, h, header)
        assumed = []
        for c in invs:
            try:
                assumed.append(self.eval_bool(c.parse(), env1))
            except Unsupported:
                pass
        accepted = []
        for cand in auto:
            txt, mk = cand[0], cand[1]
            if len(cand) > 2 and not cand[2](env0, env1):
                continue
            ok, t0 = self.try_auto(mk, env0)
            if not ok:
                continue
            ok, t1 = self.try_auto(mk, env1)
            if ok:
                accepted.append((txt, mk))
                # auto invariants are checked like written ones
                self.oblige('inv-init', t0, st, txt, '', slug='L%d-auto-%s' % (n, slugify(txt)), fnname=fnname)
                assumed.append(t1)
        inv = T.and_(*assumed)
        if inv[0] != 'b':
            self.add_hyp(T.implies(h.pc, inv))
        dec0 = None
        if lspec and lspec.decreases is not None:
            try:
                dec0 = self.eval_int(lspec.decreases.parse(), env1)
            except Unsupported as e:
                self.elab_fail('loop %d decreases: %s' % (n, e), lspec.decreases)
        ctx['loopinfo'][header] = {'n': n, 'lspec': lspec, 'auto': accepted, 'dec0': dec0, 'fnname': fnname, 'head_state': h,
                                   'fresh_comps': {nm: (h.heap.get(nm), stable_keys.get(nm, ([], True))[0]) for nm in fresh_comps}}
        if lspec is not None and not self.mute:
            self.cover('loop%d-head' % n, h)
        return h

    def apply_havoc(self, h, writes, prefix, stable_keys=None):
        if ('heapall', None) in writes:
            self.havoc_all_heap(h)
        for kind, key in sorted(writes, key=repr):
            if kind == 'cell' and key in h.cells:
                v = h.cells[key]
                if isinstance(v, (PtrV, ClosureV)):
                    continue
                nm = key[1] if isinstance(key, tuple) and len(key) > 1 else 'c'
                h.cells[key] = fresh_like(v, '%s_%s' % (prefix, nm))
                tn = self.cell_types.get(key)
                if tn:
                    try:
                        for f in self.ty.facts(h.cells[key], tn, self.mode == 'wrap'):
                            self.add_hyp(f)
                    except Exception:
                        pass
            elif kind == 'heap':
                cur = self.heap_get(h, key, None)
                if cur is None:
                    continue
                srt = T.sort_of(cur)
                if stable_keys and key in stable_keys and ('heapall', None) not in writes:
                    ks_, fresh_too = stable_keys[key]
                    arr = cur
                    if fresh_too:
                        # objects allocated by the loop body may have been written: unknown above the watermark
                        arr = T.fresh('%s|%s' % (prefix, key), srt)
                        if not self.mute:
                            kq = T.fresh_name('k')
                            kv = T.V(kq)
                            self.hyps.append(T.forall([(kq, T.INT)], T.implies(T.le(kv, self.ALLOC0),
                                                                              T.eq(T.select(arr, kv), T.select(cur, kv)))))
                    for kterm in ks_:
                        arr = T.store(arr, kterm, T.fresh('%s|%s@' % (prefix, key), srt[2]))
                    h.heap[key] = arr
                else:
                    h.heap[key] = T.fresh('%s|%s' % (prefix, key), srt)

    def try_auto(self, mk, env):
        try:
            return True, mk(env)
        except (Unsupported, KeyError):
            return False, None

    def close_loop(self, ctx, header, st, src_block):
        info = ctx['loopinfo'].get(header)
        if info is None:
            return
        n, lspec = info['n'], info['lspec']
        env = self.make_env(ctx, st, header)
        fnname = info['fnname']
        for nm, (a_head, skeys) in sorted((info.get('fresh_comps') or {}).items()):
            a_end = self.heap_get(st, nm, None)
            if a_head is None or a_end is None or a_end == a_head:
                continue
            kq = T.fresh_name('k')
            kv = T.V(kq)
            cond = T.le(kv, self.ALLOC0)
            for sk in skeys:
                cond = T.and_(cond, T.ne(kv, sk))
            self.oblige('frame', T.forall([(kq, T.INT)], T.implies(cond, T.eq(T.select(a_end, kv), T.select(a_head, kv)))), st,
                        'loop %d (flag fresh-writes): %s is written only inside objects allocated by this run' % (n, nm), '',
                        slug='L%d-fresh-writes-%s' % (n, re.sub(r'[^A-Za-z0-9_.]', '_', nm.rsplit('/', 1)[-1])[:40]), fnname=fnname)
        for c in (lspec.invariants if lspec else []):
            try:
                t = self.eval_bool(c.parse(), env)
                self.oblige('inv-keep', t, st, c.text, c.src, clause=c, slug='L%d-%s' % (n, c.slug()), fnname=fnname)
            except Unsupported as e:
                self.elab_fail('loop %d invariant %r at back edge: %s' % (n, c.text, e), c)
        for (txt, mk) in info['auto']:
            ok, t = self.try_auto(mk, env)
            if ok:
                self.oblige('inv-keep', t, st, txt, '', slug='L%d-auto-%s' % (n, slugify(txt)), fnname=fnname)
        if info['dec0'] is not None:
            try:
                d1 = self.eval_int(lspec.decreases.parse(), env)
                self.oblige('term', T.and_(T.le(T.ZERO, info['dec0']), T.lt(d1, info['dec0'])), st,
                            lspec.decreases.text, lspec.decreases.src, clause=lspec.decreases,
                            slug='L%d-decreases' % n, fnname=fnname)
            except Unsupported as e:
                self.elab_fail('loop %d decreases at back edge: %s' % (n, e), lspec.decreases)

    def auto_invariants(self, ctx, header, st, writes):
        """cheap candidates, each *checked* like a written invariant:
        - rangeindex counters: -1 <= ri <= len-1 (len taken from the register compared in the header)
        - monotone counters (c = c + k, k>0 const; every store in the loop) : c >= entry value when that is a literal."""
        out = []
        cfg = ctx['cfg']
        fn = ctx['fn']
        frame = ctx['frame']
        blk = cfg.blocks[header]
        body = cfg.loops[header]
        defs = {}
        for b in fn['blocks']:
            for ins in b['instrs']:
                if 'id' in ins:
                    defs[ins['id']] = ins
        if blk['comment'] == 'rangeindex.loop':
            ins = blk['instrs']
            # t14 = *ri ; t15 = t14 + 1 ; *ri = t15 ; t16 = t15 < LEN ; if
            try:
                ri = ins[0]['x']
                lenreg = ins[3]['y']
                cid = (frame, ri)
                lenval = self.regs.get((frame, lenreg)) if isinstance(lenreg, str) else None
                if lenval is not None and is_term(lenval):
                    def mk(env, cid=cid, lenval=lenval):
                        v = env.state.cells[cid]
                        return T.and_(T.le(T.I(-1), v), T.le(v, T.sub(lenval, T.ONE)), T.le(T.ZERO, lenval))
                    out.append(('rangeindex in [-1,len-1]', mk))
            except (KeyError, IndexError, TypeError):
                pass
        # monotone counters
        stores = {}
        for b in body:
            for ins in cfg.blocks[b]['instrs']:
                if ins['op'] == 'Store' and isinstance(ins['addr'], str):
                    stores.setdefault(ins['addr'], []).append(ins)
        for addr, lst in stores.items():
            d = defs.get(addr)
            if not d or d['op'] != 'Alloc' or d.get('name') in ('rangeindex',):
                continue
            cid = (frame, addr)
            if cid not in st.cells or not is_term(st.cells[cid]):
                continue
            v0 = st.cells[cid]
            if T.sort_of(v0) != T.INT:
                continue
            ok = True
            for s_ in lst:
                val = s_['val']
                dv = defs.get(val) if isinstance(val, str) else None
                if not dv or dv['op'] != 'BinOp' or dv['tok'] != '+':
                    ok = False
                    break
                x, y = dv['x'], dv['y']
                dx = defs.get(x) if isinstance(x, str) else None
                if not (dx and dx['op'] == 'UnOp' and dx['tok'] == '*' and dx['x'] == addr):
                    ok = False
                    break
                if not (isinstance(y, dict) and 'c' in y and y['c'].lstrip('-').isdigit() and int(y['c']) > 0):
                    ok = False
                    break
            if ok and ('cell', cid) in writes:
                def mk2(env, cid=cid, v0=v0):
                    return T.le(v0, env.state.cells[cid])
                out.append((('%s >= %d' % (d.get('name') or addr, v0[1])) if v0[0] == 'i' else
                            ('%s >= its value at loop entry' % (d.get('name') or addr)), mk2))
        # counted loops `for ..; v < E; v++` (v a monotone +1 counter found above, E unchanged by the loop): v <= max(E, v at entry)
        last = blk['instrs'][-1] if blk['instrs'] else None
        cnd = defs.get(last.get('cond')) if last is not None and last['op'] == 'If' and isinstance(last.get('cond'), str) else None
        if cnd is not None and cnd['op'] == 'BinOp' and cnd.get('tok') in ('<', '<=') and isinstance(cnd.get('x'), str) and blk['comment'] != 'rangeindex.loop' \
                and len(blk['succs']) == 2 and blk['succs'][0] in body and blk['succs'][1] not in body:
            dx = defs.get(cnd['x'])
            if dx and dx['op'] == 'UnOp' and dx.get('tok') == '*' and isinstance(dx.get('x'), str) and dx['x'] in stores \
                    and any(m_[0].startswith((defs[dx['x']].get('name') or dx['x']) + ' >= ') for m_ in out):
                addr = dx['x']
                one = all(isinstance(defs.get(s_['val'], {}).get('y'), dict) and defs[s_['val']]['y'].get('c') == '1' for s_ in stores[addr])
                cid = (frame, addr)
                v0 = st.cells.get(cid)
                if one and v0 is not None and is_term(v0):
                    hdr_ids = [i_['id'] for i_ in blk['instrs'] if 'id' in i_]

                    def bound(state, y=cnd['y'], blk=blk, hdr_ids=hdr_ids):
                        if isinstance(y, dict):
                            return self.val(ctx, y)
                        saved = {k_: self.regs.get((frame, k_)) for k_ in hdr_ids}
                        st2 = state.copy()
                        self.mute += 1
                        try:
                            for i_ in blk['instrs'][:-1]:
                                if i_['op'] not in ('UnOp', 'BinOp', 'FieldAddr', 'Field', 'Call', 'Convert', 'ChangeType') or \
                                        (i_['op'] == 'Call' and (i_['call'].get('mode') != 'builtin' or i_['call'].get('callee') not in ('len', 'cap'))):
                                    raise Unsupported('loop header too complex for a bound candidate')
                                self.exec_instr(ctx, i_, st2)
                            e_ = self.regs.get((frame, y))
                            if e_ is None or not is_term(e_) or T.sort_of(e_) != T.INT:
                                raise Unsupported('no bound')
                            return e_
                        finally:
                            self.mute -= 1
                            for k_, v_ in saved.items():
                                if v_ is None:
                                    self.regs.pop((frame, k_), None)
                                else:
                                    self.regs[(frame, k_)] = v_

                    def guard(env0, env1):
                        try:
                            return bound(env0.state) == bound(env1.state)
                        except (Unsupported, KeyError, TypeError, IndexError):
                            return False

                    dy = defs.get(cnd['y']) if isinstance(cnd['y'], str) else None
                    nonneg = dy is not None and dy['op'] == 'Call' and dy['call'].get('mode') == 'builtin' and dy['call'].get('callee') in ('len', 'cap')
                    plain = nonneg and v0[0] == 'i' and v0[1] <= 0      # starts at 0 (or below), bound is a length: v <= bound outright

                    def mk3(env, cid=cid, v0=v0, strict=cnd['tok'] == '<', plain=plain):
                        e_ = bound(env.state)
                        v = env.state.cells[cid]
                        b_ = T.le(v, e_ if strict else T.add(e_, T.ONE))
                        # (a length is non-negative, but that fact is attached to the value where the real header loads
                        # it, not here: keep the candidate a tautology at entry without it)
                        return T.or_(b_, T.lt(e_, T.ZERO)) if plain else T.or_(b_, T.le(v, v0))
                    out.append(('%s <= max(loop bound%s, its value at loop entry)' % (defs[addr].get('name') or addr, '' if cnd['tok'] == '<' else ' + 1'), mk3, guard))
        return out

    def inline_name(self, ctx):
        pk, short = self.prog.short(ctx['fn']['name'])
        return pk.rsplit('/', 1)[-1] + '.' + short.replace('(*', '').replace('(', '').replace(')', '')

    def elab_fail(self, msg, clause=None):
        if self.mute:
            return
        self.errors.append(msg)
        if clause is not None:
            self.clause_hits[id(clause)] = self.clause_hits.get(id(clause), 0) + 1
