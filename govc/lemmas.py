"""Spec-level lemmas: proved once, in isolation (DESIGN §3.5)."""
from . import terms as T
from .exec_expr import ExprMixin, Env, SORTS
from .state import State, Obligation
from .values import Types, Unsupported


class LemmaRun(ExprMixin):
    def __init__(self, eng):
        self.prog = eng.prog
        self.specs = eng.specs
        self.ty = eng.ty
        self.hyps = []
        self.obls = []
        self.rec_seen = {}
        self.rec_defs = []
        self.rec_depth = 0
        self.facted = set()
        self.mute = 0
        self.errors = []
        self.abstracted = []
        self.unmodelled = set()
        self.assumed_used = set()
        self.pure_used = set()
        self.inlined = set()
        self.entry_state = State()
        self.fn = {'name': 'lemmas'}
        self.oname = 'spec.lemmas'
        self.mode = 'math'
        self.gen_time = 0.0
        self.heap0 = {}

    def add_fact_once(self, t):
        if t not in self.facted:
            self.facted.add(t)
            self.hyps.append(t)

    def heap_get(self, state, name, sort):
        a = self.heap0.get(name)
        if a is None:
            a = T.V('H0|' + name, sort)
            self.heap0[name] = a
        return a


def lemma_obligations(eng, names):
    if not names:
        return None
    run = LemmaRun(eng)
    T.reset_counter()
    for name in names:
        lm = eng.specs.lemmas.get(name)
        if lm is None:
            run.errors.append('lemma %s is not declared' % name)
            continue
        if lm.axiom:
            run.assumed_used.add('axiom ' + name)
            continue
        try:
            vs = {}
            for pn, ps in lm.params:
                vs[pn] = (T.V(T.fresh_name(pn), SORTS.get(ps, T.INT)), None)
            env = Env(vs, run.entry_state, run.entry_state, {}, None)
            goal = run.eval_bool(lm.parse(), env)
            if lm.induction:
                nv = vs[lm.induction][0]
                base = T.substitute(goal, {nv[1]: T.ZERO})
                step = T.implies(T.and_(T.le(T.ZERO, nv), goal), T.substitute(goal, {nv[1]: T.add(nv, T.ONE)}))
                run.unfold_in(base)
                run.unfold_in(step)
                for tag, g in (('base', base), ('step', step)):
                    o = Obligation('spec.%s/lemma#1:%s' % (name, tag), 'lemma', 'lemmas', lm.text, lm.src, len(run.hyps), g)
                    run.obls.append(o)
            else:
                o = Obligation('spec.%s/lemma#1:%s' % (name, name), 'lemma', 'lemmas', lm.text, lm.src, len(run.hyps), goal)
                run.obls.append(o)
        except Unsupported as e:
            run.errors.append('lemma %s: %s' % (name, e))
    return run
