"""developer runner: python3 -m govc.dev <pkgsuffix> <short> [-v]"""
import os as _os, sys as _sys
if _os.environ.get("PYTHONHASHSEED") != "0":
    # same hash seed as bin/check: instantiation order (hence provability of brittle goals) depends on it
    _os.execve(_sys.executable, [_sys.executable, "-m", "govc.dev"] + _sys.argv[1:], dict(_os.environ, PYTHONHASHSEED="0"))
import sys, time
from .engine import Engine, discharge_all, ob_ok

def main():
    pk, short = sys.argv[1], sys.argv[2]
    verbose = '-v' in sys.argv
    t0 = time.time()
    eng = Engine(_os.environ.get('VERIF_REPO', '/repo'))
    print('load %.1fs' % (time.time() - t0))
    for e in eng.specs.errors:
        print('SPEC ERROR', e)
    full = [p for p in eng.prog.packages if p.endswith(pk)][0]
    run = eng.analyze(full, short)
    print('gen %.2fs, %d obligations, %d hyps' % (run.gen_time, len(run.obls), len(run.hyps)))
    for e in run.errors:
        print('ELAB ERROR', e)
    for a in run.abstracted:
        print('ABSTRACTED', a)
    for u in sorted(run.unmodelled):
        print('UNMODELLED', u)
    t0 = time.time()
    discharge_all(run, timeout=int(__import__('os').environ.get('TO', '10')))
    print('solve %.1fs' % (time.time() - t0))
    for o in run.obls:
        r = o.result
        ok = ob_ok(o)
        print('%-4s %s  [%s %s %.2fs %s]' % ('ok' if ok else 'FAIL', o.name, r.get('result'), r.get('solver'), r.get('time', 0), r.get('form', '')))
        if (not ok or verbose) and r.get('output') and not o.expect_sat:
            if not ok:
                print('     text:', o.text, o.pos)
                from . import smt
                m = smt.parse_model(r.get('output', ''))
                keys = [k for k in m if not any(x in k for x in ('pc_', 'dq_', 'dr_', 'm_', 'hv'))]
                print('     model:', {k: m[k] for k in sorted(keys)[:40]})
        if '-q' in sys.argv and not ok:
            open('/tmp/fail_%s.smt2' % o.name.replace('/', '_')[:80], 'w').write(r.get('query', ''))

main()
