"""Baseline of local names (DESIGN 0.9: tolerance for pure renames).

  python3 -m govc.baseline            regenerate /verif/specs/locals.json from /repo's current tree

For every function under contract the baseline records, in SSA order, the named Allocs (name, element type), the
parameters, named results and free variables.  At check time a name used by a contract that no longer exists in the
function is resolved to the variable that sits at the SAME ordinal with the SAME type -- but only when the function
still has exactly the same sequence of variable types (a pure rename); any other change of shape is not guessed at.
The file is generated from the tree the contracts were written for and committed; it is never written by a check."""
import json
import os
import sys

VERIF = os.path.dirname(os.path.dirname(os.path.abspath(__file__)))
PATH = os.path.join(VERIF, 'specs', 'locals.json')


def shape(fn):
    allocs = []
    for blk in fn['blocks']:
        for ins in blk['instrs']:
            if ins['op'] == 'Alloc' and ins.get('name'):
                allocs.append([ins['name'], ins.get('elem')])
    return {'allocs': allocs,
            'params': [[p['name'], p['type']] for p in fn['params']],
            'results': [[r.get('name') or '', r['type']] for r in fn['results']],
            'freevars': [[p['name'], p['type']] for p in fn.get('freevars', [])]}


_cache = None


def load():
    global _cache
    if _cache is None:
        try:
            _cache = json.load(open(PATH))
        except Exception:
            _cache = {}
    return _cache


def renames(fn):
    """{old name: new name} for variables of fn that were purely renamed since the baseline (per kind)."""
    base = load().get(fn['name'])
    if not base:
        return {}
    cur = shape(fn)
    out = {}
    for kind in ('allocs', 'params', 'results', 'freevars'):
        b, c = base.get(kind, []), cur.get(kind, [])
        if len(b) != len(c) or [t for _, t in b] != [t for _, t in c]:
            continue                      # the shape changed: no guessing
        bnames = {n for n, _ in b}
        cnames = {n for n, _ in c}
        for (bn, _), (cn, _) in zip(b, c):
            if bn != cn and bn and cn and bn not in cnames and cn not in bnames:
                out[bn] = cn
    return out


def main():
    sys.path.insert(0, VERIF)
    from govc.engine import Engine
    from govc.properties import PROPERTIES
    eng = Engine(os.environ.get('VERIF_REPO', '/repo'))
    want = set()
    for cfg in PROPERTIES.values():
        for pk, short in cfg['functions']:
            want.add((pk, short))
    doc = {}
    for pk, short in sorted(want):
        full = [p for p in eng.prog.packages if p == 'github.com/itchio/wharf' + pk]
        if not full:
            continue
        for name, fn in eng.prog.funcs.items():
            if eng.prog.short(name) == (full[0], short) or (eng.prog.short(name)[0] == full[0] and eng.prog.short(name)[1].startswith(short + '$')):
                doc[name] = shape(fn)
    json.dump(doc, open(PATH, 'w'), indent=0, sort_keys=True)
    print('%s: %d functions' % (PATH, len(doc)))


if __name__ == '__main__':
    main()
