"""Baseline of local names (DESIGN 0.9: tolerance for pure renames).

  python3 -m govc.baseline            regenerate /verif/specs/locals.json from /repo's current tree

For every function under contract the baseline records, in SSA order, the named Allocs (name, element type), the
parameters, named results and free variables.  At check time a name used by a contract that no longer exists in the
function is resolved to the variable that sits at the SAME ordinal with the SAME type -- but only when the function
still has exactly the same sequence of variable types (a pure rename); any other change of shape is not guessed at.
The file is generated from the tree the contracts were written for and committed; it is never written by a check."""
import json
import os
import sys

VERIF = os.path.dirname(os.path.dirname(os.path.abspath(__file__)))
PATH = os.path.join(VERIF, 'specs', 'locals.json')


def shape(fn):
    allocs = []
    for blk in fn['blocks']:
        for ins in blk['instrs']:
            if ins['op'] == 'Alloc' and ins.get('name'):
                allocs.append([ins['name'], ins.get('elem')])
    return {'allocs': allocs, 'loops': loop_shapes(fn),
            'params': [[p['name'], p['type']] for p in fn['params']],
            'results': [[r.get('name') or '', r['type']] for r in fn['results']],
            'freevars': [[p['name'], p['type']] for p in fn.get('freevars', [])]}


def loop_shapes(fn):
    """per loop, in ordinal order: the form of its header, the ordinal of its hidden `rangeindex` counter (range over a
    slice / array / string by index) and its induction variable (a named local whose only stores in the loop are v = v+1)"""
    from .ssa import CFG
    try:
        cfg = CFG(fn)
    except Exception:
        return []
    defs = {}
    ri_ord = {}
    for blk in fn['blocks']:
        for ins in blk['instrs']:
            if 'id' in ins:
                defs[ins['id']] = ins
            if ins['op'] == 'Alloc' and ins.get('name') == 'rangeindex':
                ri_ord[ins['id']] = len(ri_ord) + 1
    out = []
    for h in sorted(cfg.loops, key=lambda h_: cfg.loop_no[h_]):
        blk = cfg.blocks[h]
        rec = {'kind': blk.get('comment', ''), 'ri': None, 'iv': None, 'ivid': None, 'riid': None, 'hdr': h,
               'ops': _ops_hist(ins for b in cfg.loops[h] for ins in cfg.blocks[b]['instrs'])}
        if blk.get('comment') == 'rangeindex.loop' and blk['instrs'] and blk['instrs'][0]['op'] == 'UnOp':
            rid = blk['instrs'][0].get('x')
            rec['ri'] = ri_ord.get(rid)
            rec['riid'] = rid
            # the named key variable, if any: allocated per iteration and stored from the counter at the top of the body
            for b in sorted(cfg.loops[h]):
                for ins in cfg.blocks[b]['instrs']:
                    if ins['op'] != 'Store' or not isinstance(ins.get('val'), str) or not isinstance(ins.get('addr'), str):
                        continue
                    dv = defs.get(ins['val'])
                    da = defs.get(ins['addr'])
                    if dv and dv['op'] == 'UnOp' and dv.get('tok') == '*' and dv.get('x') == rid and da and da['op'] == 'Alloc' \
                            and da.get('name') not in (None, 'rangeindex') and not rec.get('key'):
                        rec['key'] = da['name']
                        rec['keyid'] = ins['addr']
        else:
            stores = {}
            for b in cfg.loops[h]:
                for ins in cfg.blocks[b]['instrs']:
                    if ins['op'] == 'Store' and isinstance(ins.get('addr'), str):
                        stores.setdefault(ins['addr'], []).append(ins)
            cands = []
            for addr, lst in stores.items():
                d = defs.get(addr)
                if not d or d['op'] != 'Alloc' or not d.get('name') or len(lst) != 1:
                    continue
                dv = defs.get(lst[0]['val']) if isinstance(lst[0].get('val'), str) else None
                if not dv or dv['op'] != 'BinOp' or dv.get('tok') != '+':
                    continue
                dx = defs.get(dv['x']) if isinstance(dv.get('x'), str) else None
                y = dv.get('y')
                if dx and dx['op'] == 'UnOp' and dx.get('tok') == '*' and dx.get('x') == addr and isinstance(y, dict) and y.get('c') == '1':
                    cands.append((addr, d['name']))
            # prefer the one the header compares
            hdr_loads = {ins.get('x') for ins in blk['instrs'] if ins['op'] == 'UnOp' and ins.get('tok') == '*' and isinstance(ins.get('x'), str)}
            pick = [c for c in cands if c[0] in hdr_loads] or cands
            if len(pick) == 1:
                rec['iv'] = pick[0][1]
                rec['ivid'] = pick[0][0]
        out.append(rec)
    return out


def _ops_hist(instrs):
    h = {}
    for ins in instrs:
        k = ins['op']
        if k in ('Call', 'Go', 'Defer'):
            c = ins.get('call') or {}
            tgt = str(c.get('callee') or c.get('method') or c.get('mode') or '')
            k += ':' + ('<lit>' if '$' in tgt else tgt)
        elif k in ('BinOp', 'UnOp'):
            k += ':' + str(ins.get('tok', ''))
        elif k in ('FieldAddr', 'Field'):
            k += ':' + str(ins.get('field', ''))
        h[k] = h.get(k, 0) + 1
    return h


def _dice(ha, hb):
    inter = sum(min(v, hb.get(k, 0)) for k, v in ha.items())
    tot = sum(ha.values()) + sum(hb.values())
    return 2.0 * inter / tot if tot else 1.0


def _align(n_, m_, sim):
    """order-preserving alignment of 0..n_-1 with 0..m_-1 maximising the summed similarity; {j: i}"""
    best = [[0.0] * (m_ + 1) for _ in range(n_ + 1)]
    for i in range(n_ - 1, -1, -1):
        for j in range(m_ - 1, -1, -1):
            s_ = sim(i, j)
            v = max(best[i + 1][j], best[i][j + 1])
            if s_ > 0 and best[i + 1][j + 1] + s_ > v:
                v = best[i + 1][j + 1] + s_
            best[i][j] = v
    mapping = {}
    i = j = 0
    while i < n_ and j < m_:
        s_ = sim(i, j)
        if s_ > 0 and abs(best[i][j] - (best[i + 1][j + 1] + s_)) < 1e-9:
            mapping[j] = i
            i += 1
            j += 1
        elif best[i + 1][j] >= best[i][j + 1]:
            i += 1
        else:
            j += 1
    return mapping


def loop_alignment(fn):
    """{header block: ordinal the loop had in the baseline tree} when the function gained or lost loops since the
    contracts were written (`loop k:` clauses are keyed by source-order ordinal); None when the count is unchanged.
    Loops are matched, order-preserving, by the similarity of what their bodies do; a loop without a counterpart gets
    an ordinal above the baseline's (no clause exists for it)."""
    base = load().get(fn['name'])
    if not base or not base.get('loops') or any('ops' not in b for b in base['loops']):
        return None
    bl = base['loops']
    cur = loop_shapes(fn)
    if len(bl) == len(cur):
        return None

    def sim(i, j):
        d = _dice(bl[i]['ops'], cur[j]['ops'])
        return d if d >= 0.5 else 0.0
    m = _align(len(bl), len(cur), sim)
    out = {}
    nxt = len(bl)
    for j, c in enumerate(cur):
        if j in m:
            out[c['hdr']] = m[j] + 1
        else:
            nxt += 1
            out[c['hdr']] = nxt
    return out


def closure_fp(fn):
    """fingerprint of a function literal: its signature by types, and a histogram of what its body does"""
    h = _ops_hist(ins for blk in fn['blocks'] for ins in blk['instrs'])
    return {'sig': '(%s)(%s)' % (','.join(p['type'] for p in fn['params']), ','.join(r['type'] for r in fn['results'])), 'ops': h}


def _similar(a, b):
    if a['sig'] != b['sig']:
        return 0.0
    return 0.5 + _dice(a['ops'], b['ops'])


def _children(funcs, parent):
    out = []
    for name, f in funcs.items():
        if f.get('parent') == parent and name.startswith(parent + '$') and name[len(parent) + 1:].isdigit():
            out.append((int(name[len(parent) + 1:]), name))
    return [n for _, n in sorted(out)]


def closures_doc(funcs):
    """{parent: [[ordinal, fingerprint], ...]} for every function that contains function literals"""
    doc = {}
    for name, f in funcs.items():
        par = f.get('parent')
        if par and name.startswith(par + '$') and name[len(par) + 1:].isdigit():
            doc.setdefault(par, []).append([int(name[len(par) + 1:]), closure_fp(f)])
    for par in doc:
        doc[par].sort(key=lambda x: x[0])
    return doc


def structs_doc(prog):
    """{named struct type of the module: [[field name, field type], ...]}"""
    out = {}
    for n, t in prog.types.items():
        if t.get('kind') == 'named' and 'github.com/itchio/wharf' in n:
            u = prog.types.get(t.get('underlying')) or {}
            if u.get('kind') == 'struct':
                out[n] = [[f['name'], f['type']] for f in u['fields']]
    return out


def apply_field_renames(prog):
    """struct fields that were purely RENAMED since the baseline (same struct, same number of fields, same field types
    in the same order, only names differ, and neither name is used by another field) get their baseline names back, in
    the type table and in every field access -- contracts address fields by name.  Returns the list of renames."""
    base = load().get('#structs') or {}
    done = []
    for n, bf in base.items():
        t = prog.types.get(n)
        if not t or t.get('kind') != 'named':
            continue
        u = prog.types.get(t.get('underlying')) or {}
        if u.get('kind') != 'struct':
            continue
        cf = u['fields']
        if len(cf) != len(bf) or [f['type'] for f in cf] != [x[1] for x in bf]:
            continue
        bnames = [x[0] for x in bf]
        cnames = [f['name'] for f in cf]
        if bnames == cnames:
            continue
        ok = True
        for b_, c_ in zip(bnames, cnames):
            if b_ != c_ and (b_ in cnames or c_ in bnames):
                ok = False
        if not ok:
            continue
        for f, b_ in zip(cf, bnames):
            if f['name'] != b_:
                done.append('%s.%s -> %s' % (n.rsplit('/', 1)[-1], b_, f['name']))
                f['name'] = b_
        for fn in prog.funcs.values():
            for blk in fn['blocks']:
                for ins in blk['instrs']:
                    if ins['op'] in ('FieldAddr', 'Field') and ins.get('stype') == n and isinstance(ins.get('field'), int):
                        ins['fname'] = cf[ins['field']]['name']
    return done


def function_renames(funcs):
    """{current full name: baseline full name} for functions under contract that were RENAMED since the baseline: the
    baseline name is gone, and exactly one function of the same package that the baseline tree did not have carries
    the same signature (receiver type included) and a very similar body.  The contract keeps addressing it by the name
    it was written for; every reference in the program is renamed consistently."""
    base = load()
    allf = set(base.get('#allfuncs') or [])
    fps = base.get('#fingerprints') or {}
    if not allf or not fps:
        return {}
    new_funcs = [n for n, f in funcs.items() if n not in allf and not f.get('parent') and not f.get('synthetic')]
    ren = {}
    for old_name, fp in fps.items():
        if old_name in funcs or '$' in old_name:
            continue
        pkg = old_name.rsplit('.', 1)[0].lstrip('(*')
        recv = old_name[:old_name.rfind(').') + 1] if old_name.startswith('(') else ''
        cands = []
        for n in new_funcs:
            f = funcs[n]
            nrecv = n[:n.rfind(').') + 1] if n.startswith('(') else ''
            npkg = n.rsplit('.', 1)[0].lstrip('(*')
            if nrecv != recv or (not recv and npkg != pkg):
                continue
            cf = closure_fp(f)
            if cf['sig'] != fp['sig']:
                continue
            d = _dice(fp['ops'], cf['ops'])
            if d >= 0.8:
                cands.append((d, n))
        if len(cands) == 1 or (len(cands) > 1 and sorted(cands)[-1][0] - sorted(cands)[-2][0] > 0.1):
            n = sorted(cands)[-1][1]
            if n not in ren:
                ren[n] = old_name
    # literals of a renamed function follow it
    out = dict(ren)
    for n, o in ren.items():
        for m in funcs:
            if m.startswith(n + '$'):
                out[m] = o + m[len(n):]
    return out


def closure_renames(funcs):
    """{current full name: name it had in the baseline tree} for the function literals of every function whose list of
    literals changed shape since the baseline (one added before the others, one removed ...).  go/ssa numbers literals
    `F$1, F$2 ...` in source order and the contracts are keyed by that ordinal, so a literal inserted in front would
    shift every contract onto the wrong body.  The literals of the current tree are aligned, order-preserving, with the
    baseline's by signature and body similarity; matched ones keep the baseline ordinal, new ones get ordinals above
    the baseline's (no contract exists for those: they are inlined at their call sites)."""
    base = load().get('#closures') or {}
    ren = {}

    def walk(cur_parent, base_parent, new_parent):
        cur = _children(funcs, cur_parent)
        if not cur:
            return
        b = base.get(base_parent) if base_parent is not None else None
        mapping = {}
        if b:
            cf = [closure_fp(funcs[n]) for n in cur]
            same_shape = len(b) == len(cur) and all(b[i][1]['sig'] == cf[i]['sig'] for i in range(len(b))) \
                and [x[0] for x in b] == [int(n[len(cur_parent) + 1:]) for n in cur]
            if same_shape:
                mapping = {i: b[i][0] for i in range(len(cur))}
            else:
                m = _align(len(b), len(cur), lambda i, j: _similar(b[i][1], cf[j]))
                mapping = {j: b[i][0] for j, i in m.items()}
        nxt = max([x[0] for x in b] if b else [0]) if b else None
        for j, name in enumerate(cur):
            if b:
                if j in mapping:
                    o = mapping[j]
                    bp = '%s$%d' % (base_parent, o)
                else:
                    nxt += 1
                    o = nxt
                    bp = None
            else:
                o = int(name[len(cur_parent) + 1:])
                bp = ('%s$%d' % (base_parent, o)) if base_parent is not None else None
            new = '%s$%d' % (new_parent, o)
            if new != name:
                ren[name] = new
            walk(name, bp, new)

    for name, f in funcs.items():
        if not f.get('parent'):
            walk(name, name, name)
    return ren


_cache = None


def load():
    global _cache
    if _cache is None:
        try:
            _cache = json.load(open(PATH))
        except Exception:
            _cache = {}
    return _cache


def renames(fn):
    """{old name: new name} for variables of fn that were purely renamed since the baseline (per kind)."""
    base = load().get(fn['name'])
    if not base:
        return {}
    cur = shape(fn)
    out = {}
    for kind in ('allocs', 'params', 'results', 'freevars'):
        b, c = base.get(kind, []), cur.get(kind, [])
        if len(b) != len(c) or [t for _, t in b] != [t for _, t in c]:
            continue                      # the shape changed: no guessing
        bnames = {n for n, _ in b}
        cnames = {n for n, _ in c}
        for (bn, _), (cn, _) in zip(b, c):
            if bn != cn and bn and cn and bn not in cnames and cn not in bnames:
                out[bn] = cn
    return out


def main():
    sys.path.insert(0, VERIF)
    os.environ['VERIF_NO_ALIGN'] = '1'          # the baseline is taken from the tree as it is
    from govc.engine import Engine
    from govc.properties import PROPERTIES
    eng = Engine(os.environ.get('VERIF_REPO', '/repo'))
    want = set()
    for cfg in PROPERTIES.values():
        for pk, short in cfg['functions']:
            want.add((pk, short))
    doc = {}
    for pk, short in sorted(want):
        full = [p for p in eng.prog.packages if p == 'github.com/itchio/wharf' + pk]
        if not full:
            continue
        for name, fn in eng.prog.funcs.items():
            if eng.prog.short(name) == (full[0], short) or (eng.prog.short(name)[0] == full[0] and eng.prog.short(name)[1].startswith(short + '$')):
                doc[name] = shape(fn)
    doc['#closures'] = closures_doc(eng.prog.funcs)
    doc['#structs'] = structs_doc(eng.prog)
    doc['#allfuncs'] = sorted(eng.prog.funcs)
    doc['#params'] = {n: [p_['name'] for p_ in f['params']] for n, f in eng.prog.funcs.items() if n.startswith(('github.com/itchio/wharf', '(*github.com/itchio/wharf', '(github.com/itchio/wharf'))}
    doc['#fingerprints'] = {name: closure_fp(eng.prog.funcs[name]) for name in doc if not name.startswith('#') and name in eng.prog.funcs}
    json.dump(doc, open(PATH, 'w'), indent=0, sort_keys=True)
    print('%s: %d functions' % (PATH, len(doc)))


if __name__ == '__main__':
    main()
