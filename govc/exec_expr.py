"""Evaluation of contract expressions over a symbolic state (mixin of FuncRun)."""
from . import terms as T
from .values import SliceV, StructV, TupleV, PtrV, ClosureV, SeqV, Unsupported, is_term

SORTS = {'int': T.INT, 'bool': T.BOOL, 'seq': T.AII, 'seqseq': T.ARR(T.INT, T.AII), 'ref': T.INT, 'seqbool': T.AIB}


class Env:
    """names: dict name -> (value, tname) ; state: current State ; old: State for old() ; cellnames: name -> cellid"""

    def __init__(self, names, state, old=None, cellnames=None, pkg=None, prefer_cells=False):
        self.names = names
        self.state = state
        self.old = old
        self.cellnames = cellnames or {}
        self.pkg = pkg
        self.prefer_cells = prefer_cells

    def with_state(self, st):
        e = Env(self.names, st, self.old, self.cellnames, self.pkg, self.prefer_cells)
        e.bound = set(getattr(self, 'bound', ()))
        if hasattr(self, 'fresh_bounds'):
            e.fresh_bounds = self.fresh_bounds
        return e

    def bind(self, extra):
        n = dict(self.names)
        n.update(extra)
        e = Env(n, self.state, self.old, self.cellnames, self.pkg, self.prefer_cells)
        e.bound = set(getattr(self, 'bound', ())) | set(extra)
        if hasattr(self, 'fresh_bounds'):
            e.fresh_bounds = self.fresh_bounds
        return e


class ExprMixin:

    def eval_bool(self, ast, env):
        v, t = self.eval(ast, env)
        if not is_term(v) or T.sort_of(v) != T.BOOL:
            raise Unsupported('boolean expected, got %r' % (v,))
        return v

    def as_ref(self, v):
        """address of an embedded struct (a Python-level field pointer) as a term: an injective function of the
        enclosing reference"""
        if isinstance(v, PtrV) and v.kind == 'field' and is_term(v.a):
            f = T.UF('addr_%s_%s' % (v.b.rsplit('/', 1)[-1], '.'.join(v.path)), [T.INT], T.INT)
            return f(v.a)
        return v

    def eval_int(self, ast, env):
        v, t = self.eval(ast, env)
        v = self.as_ref(v)
        if not is_term(v) or T.sort_of(v) != T.INT:
            raise Unsupported('integer expected, got %r' % (v,))
        return v

    def lookup_name(self, name, env):
        dv = env.cellnames.get('#derived')
        if dv and name in dv and name not in getattr(env, 'bound', ()):
            cid, delta, tn = dv[name]
            if cid in env.state.cells and is_term(env.state.cells[cid]):
                v = env.state.cells[cid]
                return (T.add(v, T.I(delta)) if delta else v), tn
            raise Unsupported('variable behind %s is not allocated at this point' % name)
        if env.prefer_cells and name in env.cellnames and name not in getattr(env, 'bound', ()):
            # loop invariants speak about the current value of a variable (parameters are mutable in Go);
            # old(x) gives the entry value
            cid, tn = env.cellnames[name]
            if cid in env.state.cells:
                return env.state.cells[cid], tn
            if cid in self.boxrefs:
                # a variable whose address escapes lives in the heap: its current value is read from there
                r, et, k = self.boxrefs[cid]
                if k == 'struct':
                    return r, '*' + et
                if k != 'array':
                    return self.load(env.state, PtrV('box', r, et)), et
        if name in env.names:
            return env.names[name]
        if name in env.cellnames:
            cid, tn = env.cellnames[name]
            if cid in env.state.cells:
                return env.state.cells[cid], tn
            raise Unsupported('variable %s is not allocated at this point' % name)
        # package constants
        c = self.prog.consts.get((env.pkg, name))
        if c is not None and 'c' in c and not c.get('str'):
            try:
                return T.I(int(c['c'])), c['t']
            except ValueError:
                pass
        if name in self.specs.consts:
            return self.eval(self.specs.consts[name], env)
        # qualified constant given as pkg_Name?  try any package with unique match
        raise Unsupported('unknown name %r in contract' % name)

    def eval(self, ast, env):
        k = ast[0]
        if k == 'num':
            return T.I(ast[1]), None
        if k == 'bool':
            return T.Bc(ast[1]), None
        if k == 'str':
            return self.const_value({'c': ast[1], 'str': True, 't': 'string'}), 'string'
        if k == 'nil':
            return T.ZERO, None
        if k == 'name':
            if ast[1] == 'ioEOF' and 'ioEOF' not in env.names:
                return self.known_error('io.EOF'), 'error'
            if ast[1] == 'errCancelled' and 'errCancelled' not in env.names:
                return self.known_error('github.com/itchio/wharf/werrors.ErrCancelled'), 'error'
            return self.lookup_name(ast[1], env)
        if k == 'sel':
            # package-qualified constant?
            if ast[1][0] == 'name' and ast[1][1] not in env.names and ast[1][1] not in env.cellnames:
                for pp in self.prog.packages:
                    if pp.rsplit('/', 1)[-1] == ast[1][1]:
                        c = self.prog.consts.get((pp, ast[2]))
                        if c is not None:
                            return T.I(int(c['c'])), c['t']
            x, tn = self.eval(ast[1], env)
            return self.select_field(x, tn, ast[2], env.state)
        if k == 'idx':
            x, tn = self.eval(ast[1], env)
            i = self.eval_int(ast[2], env)
            return self.index_value(x, tn, i, env.state)
        if k == 'slice':
            x, tn = self.eval(ast[1], env)
            if not isinstance(x, SliceV):
                raise Unsupported('slice expression on non-slice')
            lo = self.eval_int(ast[2], env) if ast[2] is not None else T.ZERO
            hi = self.eval_int(ast[3], env) if ast[3] is not None else x.len
            return SliceV(x.base, T.add(x.off, lo), T.sub(hi, lo), T.sub(x.cap, lo), x.elem), tn
        if k == 'un':
            op = ast[1]
            if op == '!':
                return T.not_(self.eval_bool(ast[2], env)), None
            if op == '-':
                return T.neg(self.eval_int(ast[2], env)), None
            if op == '*':
                x, tn = self.eval(ast[2], env)
                if isinstance(x, PtrV):
                    et = None
                    return self.load(env.state, x), et
                if is_term(x) and tn and self.ty.kind(tn) == 'pointer':
                    et = self.ty.elem(tn)
                    if self.ty.kind(et) == 'struct':
                        # whole struct value
                        vals = {}
                        for fname, ftype in self.ty.struct_fields(et):
                            vals[fname] = self.load(env.state, PtrV('field', x, et, None, (fname,)))
                        return StructV(et, vals), et
                    return self.load(env.state, PtrV('box', x, et)), et
                raise Unsupported('deref of %r' % (x,))
            raise Unsupported('unary %s' % op)
        if k == 'bin':
            return self.eval_bin(ast, env)
        if k == 'cond':
            c = self.eval_bool(ast[1], env)
            a, ta = self.eval(ast[2], env)
            b, tb = self.eval(ast[3], env)
            return T.ite(c, a, b), ta
        if k == 'q':
            names = {}
            vs = []
            for n, ty in ast[2]:
                s = SORTS.get(ty, T.INT)
                bn = T.fresh_name(n)
                if not hasattr(self, 'bound_names_all'):
                    self.bound_names_all = set()
                self.bound_names_all.add(bn)
                v = T.V(bn, s)
                names[n] = (v, None)
                vs.append((bn, s))
            body = self.eval_bool(ast[3], env.bind(names))
            if ast[1] == 'forall':
                return T.forall(vs, body), None
            return T.exists(vs, body), None
        if k == 'call':
            return self.eval_call(ast, env)
        if k == 'mcall':
            raise Unsupported('method call in contract')
        raise Unsupported('expression kind %s' % k)

    def eval_bin(self, ast, env):
        op = ast[1]
        if op in ('&&', '||', '==>', '<==>'):
            a = self.eval_bool(ast[2], env)
            b = self.eval_bool(ast[3], env)
            if op == '&&':
                return T.and_(a, b), None
            if op == '||':
                return T.or_(a, b), None
            if op == '==>':
                return T.implies(a, b), None
            return T.iff(a, b), None
        a, ta = self.eval(ast[2], env)
        b, tb = self.eval(ast[3], env)
        if op in ('==', '!='):
            e = self.values_equal(a, b)
            return (e if op == '==' else T.not_(e)), None
        if not (is_term(a) and is_term(b)):
            raise Unsupported('arithmetic on composite values')
        if op == '<':
            return T.lt(a, b), None
        if op == '<=':
            return T.le(a, b), None
        if op == '>':
            return T.gt(a, b), None
        if op == '>=':
            return T.ge(a, b), None
        if op == '+':
            return T.add(a, b), ta or tb
        if op == '-':
            return T.sub(a, b), ta or tb
        if op == '*':
            return self.named_product(a, b), ta or tb
        if op == '/':
            return T.go_div(a, b), ta or tb
        if op == '%':
            return T.go_mod(a, b), ta or tb
        if op == '<<':
            if b[0] == 'i' and a[0] == 'i':
                return T.I(a[1] << b[1]), ta
            if b[0] == 'i':
                return T.mul(a, T.I(1 << b[1])), ta
        if op == '>>':
            if b[0] == 'i':
                return T.sdiv(a, T.I(1 << b[1])), ta
        if op == '&':
            if b[0] == 'i' and b[1] >= 0 and (b[1] + 1) & b[1] == 0:
                return T.smod(a, T.I(b[1] + 1)), ta
            # the same uninterpreted function the code's `&` is lowered to (exec_instr.binop)
            return T.UF('band', [T.INT, T.INT], T.INT)(a, b), ta
        raise Unsupported('binary operator %s in contract' % op)

    def named_product(self, a, b):
        return T.mul(a, b)

    def values_equal(self, a, b):
        if is_term(a) and is_term(b):
            if T.sort_of(a) != T.sort_of(b):
                raise Unsupported('== on different sorts')
            return T.eq(a, b)
        if isinstance(a, SliceV) and isinstance(b, SliceV):
            return T.and_(T.eq(a.base, b.base), T.eq(a.off, b.off), T.eq(a.len, b.len), T.eq(a.cap, b.cap))
        if isinstance(a, SliceV) and is_term(b) and b == T.ZERO:
            return T.and_(T.eq(a.base, T.ZERO), T.eq(a.len, T.ZERO))
        if isinstance(b, SliceV) and is_term(a) and a == T.ZERO:
            return self.values_equal(b, a)
        if isinstance(a, StructV) and isinstance(b, StructV):
            return T.and_(*[self.values_equal(a.fields[k], b.fields[k]) for k in a.fields])
        if isinstance(a, SeqV) and isinstance(b, SeqV):
            return T.eq(a.arr, b.arr)
        raise Unsupported('== on %r / %r' % (a, b))

    def select_field(self, x, tn, fname, state):
        if isinstance(x, StructV):
            if fname not in x.fields:
                raise Unsupported('no field %s' % fname)
            ft = dict(self.ty.struct_fields(x.tname)).get(fname)
            return x.fields[fname], ft
        if is_term(x) and tn:
            k = self.ty.kind(tn)
            st = tn
            if k == 'pointer':
                st = self.ty.elem(tn)
            if self.ty.kind(st) == 'struct':
                fields = dict(self.ty.struct_fields(st))
                if fname not in fields:
                    raise Unsupported('type %s has no field %s' % (st, fname))
                v = self.load(state, PtrV('field', x, st, None, (fname,)))
                return v, fields[fname]
        raise Unsupported('field selection .%s on %r : %s' % (fname, x, tn))

    def index_value(self, x, tn, i, state):
        if isinstance(x, SliceV):
            v = self.load(state, PtrV('elem', x.base, T.add(x.off, i), x.elem))
            return v, x.elem
        if isinstance(x, SeqV):
            return T.select(x.arr, i), None
        if is_term(x) and isinstance(T.sort_of(x), tuple):
            return T.select(x, i), None
        if is_term(x) and tn and self.ty.kind(tn) == 'map':
            un, t = self.ty.under(tn)
            v = self.map_lookup(state, x, tn, i)
            has = self.map_has(state, x, tn, i)
            from .state import map_leaves
            v = map_leaves(lambda a, b: T.ite(has, a, b), v, self.ty.zero(t['elem']))
            return v, t['elem']
        raise Unsupported('indexing %r' % (x,))

    def eval_call(self, ast, env):
        name, args = ast[1], ast[2]
        if name == 'old':
            if env.old is None:
                raise Unsupported('old() not available here')
            e2 = Env(env.names, env.old, env.old, env.cellnames, env.pkg, False)
            e2.bound = getattr(env, 'bound', set())
            # names that denote current cells evaluate in the old state too
            return self.eval(args[0], e2)
        if name == 'len':
            x, tn = self.eval(args[0], env)
            if isinstance(x, SliceV):
                return x.len, 'int'
            if is_term(x) and tn and self.ty.is_string(tn):
                return self.strlen(x), 'int'
            if is_term(x) and tn and self.ty.kind(tn) == 'map':
                return self.uf_maplen(x), 'int'
            raise Unsupported('len of %r' % (x,))
        if name == 'cap':
            x, tn = self.eval(args[0], env)
            if isinstance(x, SliceV):
                return x.cap, 'int'
            raise Unsupported('cap of non-slice')
        if name == 'content':
            x, tn = self.eval(args[0], env)
            if not isinstance(x, SliceV):
                raise Unsupported('content of non-slice')
            lv = self.ty.leaves(x.elem)
            if len(lv) != 1:
                raise Unsupported('content of slice of composite elements')
            arr = self.heap_get(env.state, 'E|%s' % x.elem, T.ARR(T.INT, T.ARR(T.INT, lv[0][1])))
            return T.select(arr, x.base), None
        if name == 'emod':
            a = self.eval_int(args[0], env)
            b = self.eval_int(args[1], env)
            return T.smod(a, b), None
        if name == 'ediv':
            a = self.eval_int(args[0], env)
            b = self.eval_int(args[1], env)
            return T.sdiv(a, b), None
        if name == 'base':
            x, tn = self.eval(args[0], env)
            return x.base, None
        if name == 'off':
            x, tn = self.eval(args[0], env)
            return x.off, None
        if name == 'min':
            a = self.eval_int(args[0], env)
            b = self.eval_int(args[1], env)
            return T.tmin(a, b), None
        if name == 'max':
            a = self.eval_int(args[0], env)
            b = self.eval_int(args[1], env)
            return T.tmax(a, b), None
        if name == 'isCancelled':
            x, tn = self.eval(args[0], env)
            return T.eq(self.uf_errkind(x), T.I(self.err_kind_id('cancelled'))), None
        if name == 'isEOF':
            x, tn = self.eval(args[0], env)
            return self.uf_iseof(x), None
        if name == 'isErr':
            # isErr(e, kind) with kind an integer tag given as const name
            x, tn = self.eval(args[0], env)
            kname = args[1][1]
            return T.eq(self.uf_errkind(x), T.I(self.err_kind_id(kname))), None
        if name == 'fresh':
            # fresh(x): x was allocated by the call the clause belongs to.  In the function's own postcondition: above
            # the entry watermark; assumed at a call site: above everything allocated before the call (and below
            # everything allocated after it, through the watermark W)
            x = self.eval_int(args[0], env)
            fb = getattr(env, 'fresh_bounds', None)
            if fb is None:
                return T.lt(self.ALLOC0, x), None
            return T.and_(T.lt(fb[0], x), T.le(x, fb[1])), None
        if name == 'existing':
            # existing(x): the object x was allocated before now (at a loop head: before this iteration's allocations)
            x = self.eval_int(args[0], env)
            frontier = self.alloc_refs[-1] if self.alloc_refs else self.ALLOC0
            return T.le(x, frontier), None
        if name == 'visited':
            # visited(m, k): key k has been produced by the range loop over map m that is in progress
            m, tn = self.eval(args[0], env)
            key = self.eval_int(args[1], env)
            cands = [cid for cid, mm in self.rangevis.items() if mm == m and cid in env.state.cells]
            if not cands:
                raise Unsupported('visited(): no range loop over that map is in progress')
            return T.select(env.state.cells[cands[-1]], key), None
        if name == 'indom':
            m, tn = self.eval(args[0], env)
            key = self.eval_int(args[1], env)
            return self.map_has(env.state, m, tn, key), None
        if name == 'implements':
            x, tn = self.eval(args[0], env)
            full = self.type_from_ast(args[1], env)
            return self.uf_implements(x, full), None
        if name == 'purecall':
            # purecall(path/filepath.FromSlash, x): the deterministic model of an allow-listed pure function
            a0 = args[0]
            def flat(a):
                if a[0] == 'name':
                    return a[1]
                if a[0] == 'sel':
                    return flat(a[1]) + '.' + a[2]
                if a[0] == 'bin' and a[1] == '/':
                    return flat(a[2]) + '/' + flat(a[3])
                raise Unsupported('purecall name')
            fname = flat(a0)
            vals = [self.eval_int(a, env) for a in args[1:]]
            return self.pure_uf(fname, vals), None
        if name == 'ptr':
            x, tn = self.eval(args[0], env)
            if isinstance(x, PtrV):
                return self.as_ref(x), None
            if len(args) == 2:
                return self.uf_pay(x), self.type_from_ast(args[1], env)
            if is_term(x) and x in self.iface_static:
                return self.iface_static[x][1], self.iface_static[x][0]
            return self.uf_pay(x), None
        if name == 'dyntype':
            x, tn = self.eval(args[0], env)
            return self.uf_dyn(x), None
        if name == 'typeid':
            full = self.type_from_ast(args[0], env)
            return T.I(self.ty.type_id(full)), None
        if name == 'fresh':
            x, tn = self.eval(args[0], env)
            return T.TRUE, None
        if name == 'wrap32':
            a = self.eval_int(args[0], env)
            return T.smod(a, T.I(1 << 32)), None
        if name == 'wrapS64':
            a = self.eval_int(args[0], env)
            return T.sub(T.smod(T.add(a, T.I(1 << 63)), T.I(1 << 64)), T.I(1 << 63)), None
        gfs = getattr(self.specs, 'ghostfields', {})
        if name in gfs:
            x = self.eval_int(args[0], env)
            sort = SORTS.get(gfs[name], T.INT)
            arr = self.heap_get(env.state, 'G|' + name, T.ARR(T.INT, sort))
            return T.select(arr, x), None
        sf = self.specs.specfuncs.get(name)
        if sf is not None:
            vals = [self.eval(a, env) for a in args]
            return self.apply_specfunc(sf, vals, env), None
        raise Unsupported('unknown function %s in contract' % name)

    def type_from_ast(self, a, env):
        if a[0] == 'un' and a[1] == '*':
            return '*' + self.type_from_ast(a[2], env)
        if a[0] == 'name':
            return self.resolve_type_name(a[1], env)
        if a[0] == 'sel' and a[1][0] == 'name':
            return self.resolve_type_name(a[1][1] + '.' + a[2], env)
        raise Unsupported('type expression')

    def resolve_type_name(self, tname, env):
        if tname is None:
            raise Unsupported('type name')
        def plain(full):
            return not any(ch in full for ch in '*[](){} ,')
        if tname in self.prog.types:
            return tname
        if env.pkg and (env.pkg + '.' + tname) in self.prog.types:
            return env.pkg + '.' + tname
        cands = [full for full in self.prog.types if plain(full) and (full.endswith('/' + tname) or full.endswith('.' + tname) and '.' not in tname)]
        if cands:
            return sorted(cands, key=len)[0]
        return tname

    def apply_specfunc(self, sf, vals, env):
        if len(vals) != len(sf.params):
            raise Unsupported('spec function %s: arity' % sf.name)
        if not (sf.uf or sf.rec):
            names = {pn: (v, tn) for (pn, _), (v, tn) in zip(sf.params, vals)}
            e2 = Env(names, env.state, env.old, {}, env.pkg)
            v, _ = self.eval(sf.parse(), e2)
            return v
        targs = []
        for (v, _tn), (pn, ps) in zip(vals, sf.params):
            if isinstance(v, SeqV):
                v = v.arr
            if not is_term(v):
                raise Unsupported('spec function %s: composite argument' % sf.name)
            targs.append(v)
        argsorts = [SORTS.get(ps, T.INT) for _, ps in sf.params]
        f = T.UF('spec_' + sf.name, argsorts, SORTS.get(sf.sort, T.INT))
        t = f(*targs)
        if sf.rec:
            self.note_rec_application(sf, tuple(targs), t)
        return t

    # recursive spec functions: definitions are unfolded at query-generation time, at the ground applications that
    # occur in the query (after instantiation) -- never as quantified definitional axioms (DESIGN 3.5)
    def note_rec_application(self, sf, targs, t, depth=0):
        pass

    def rec_definition(self, sf, targs, t):
        names = {pn: (v, None) for (pn, _), v in zip(sf.params, targs)}
        e2 = Env(names, self.entry_state, self.entry_state, {}, None)
        body, _ = self.eval(sf.parse(), e2)
        return T.eq(t, body)

    def make_unfolder(self, depth=2):
        seen = set()

        def unfold(terms_):
            out = []
            work = list(terms_)
            for _ in range(depth):
                new = []
                for term in work:
                    for sub in T.subterms(term):
                        if sub[0] == 'a' and sub[1].startswith('uf:spec_') and sub not in seen:
                            sf = self.specs.specfuncs.get(sub[1][len('uf:spec_'):])
                            if sf is None or not sf.rec:
                                continue
                            if any(('!' in n and n.split('!')[0] in self._qnames) for n in T.free_vars(sub)):
                                pass
                            if self.mentions_bound(sub):
                                continue
                            seen.add(sub)
                            try:
                                d = self.rec_definition(sf, tuple(sub[2:]), sub)
                            except Unsupported:
                                continue
                            new.append(d)
                out.extend(new)
                work = new
                if not work:
                    break
            return out
        return unfold

    _qnames = frozenset()

    def mentions_bound(self, t):
        bn = getattr(self, 'bound_names_all', None)
        if not bn:
            return False
        for n in T.free_vars(t):
            if n in bn:
                return True
        return False

    def unfold_in(self, term):
        pass

    # ---- uninterpreted helpers
    def strlen(self, x):
        f = T.UF('strlen', [T.INT], T.INT)
        t = f(x)
        self.add_fact_once(T.le(T.ZERO, t))
        return t

    def uf_maplen(self, x):
        f = T.UF('maplen', [T.INT], T.INT)
        t = f(x)
        self.add_fact_once(T.le(T.ZERO, t))
        return t

    def uf_iseof(self, x):
        return T.UF('isEOF', [T.INT], T.BOOL)(x)

    def uf_errkind(self, x):
        return T.UF('errkind', [T.INT], T.INT)(x)

    def err_kind_id(self, name):
        return self.ty.type_id('errkind:' + name)

    def uf_implements(self, x, iface_type):
        f = T.UF('implements', [T.INT, T.INT], T.BOOL)
        return f(self.uf_dyn(x), T.I(self.ty.type_id(iface_type)))

    def uf_dyn(self, x):
        return T.UF('dyn', [T.INT], T.INT)(x)

    def uf_pay(self, x):
        return T.UF('pay', [T.INT], T.INT)(x)
