"""property -> functions under contract, lemmas, assumptions, what is not decided (DESIGN §5/§6)."""

PROPERTIES = {}


def prop(pid, functions, lemmas=(), assumes=(), not_decided='', bounded=()):
    PROPERTIES[pid] = {'functions': list(functions), 'lemmas': list(lemmas), 'assumes': list(assumes),
                       'not_decided': not_decided, 'bounded': list(bounded)}


prop('C18',
     functions=[('/pwr/drip', '(*Writer).Write')],
     assumes=['A-MD5'],
     not_decided='')

# properties with a registered check
CLAIMED = set()
# reasons for properties not claimed (kept current)
NOT_APPLICABLE = {}
LEVEL_TEXT = {}
