"""property -> functions under contract, lemmas, assumptions, what is not decided (DESIGN §5/§6)."""

PROPERTIES = {}


def prop(pid, functions, lemmas=(), assumes=(), not_decided='', bounded=()):
    PROPERTIES[pid] = {'functions': list(functions), 'lemmas': list(lemmas), 'assumes': list(assumes),
                       'not_decided': not_decided, 'bounded': list(bounded)}


HASHING = [('/wsync', 'βhash'), ('/wsync', '(*Context).uniqueHash'), ('/wsync', '(*Context).HashBlock')]
BLOCKVALIDATOR = [('/pwr', 'ComputeNumBlocks'), ('/pwr', 'ComputeBlockSize'), ('/pwr', '(*blockValidator).BlockSize'),
                  ('/pwr', '(*blockValidator).ValidateAsWound'), ('/pwr', '(*blockValidator).ValidateAsError')]
DRIP = [('/pwr/drip', '(*Writer).Write'), ('/pwr/drip', '(*Writer).Close')]

prop('C18',
     functions=DRIP + [('/pwr', '(*ValidatingPool).GetWriter$2'), ('/pwr/onclose', '(*Writer).Close')] + BLOCKVALIDATOR + HASHING,
     assumes=['A-MD5 (hstrong is MD5; bytes.Equal decides equality of digest values)',
              'callers respect drip.Write requires (no Write after an error; Buffer and data do not alias)'],
     not_decided='the relay goroutine of GetWriter and the construction of the drip writer in GetWriter (len(Buffer) == BlockSize) are not under contract; tiling of wound ranges across blocks follows from start == k*BS and end == start + cbs by arithmetic outside the verified text')

# properties with a registered check
CLAIMED = set()
# reasons for properties not claimed (kept current)
NOT_APPLICABLE = {}
LEVEL_TEXT = {}
