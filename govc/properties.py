"""property -> functions under contract, lemmas, assumptions, what is not decided (DESIGN §5/§6)."""

PROPERTIES = {}


def prop(pid, functions, lemmas=(), assumes=(), not_decided='', bounded=()):
    PROPERTIES[pid] = {'functions': list(functions), 'lemmas': list(lemmas), 'assumes': list(assumes),
                       'not_decided': not_decided, 'bounded': list(bounded)}


HASHING = [('/wsync', 'βhash'), ('/wsync', '(*Context).uniqueHash'), ('/wsync', '(*Context).HashBlock')]
BLOCKVALIDATOR = [('/pwr', 'ComputeNumBlocks'), ('/pwr', 'ComputeBlockSize'), ('/pwr', '(*blockValidator).BlockSize'),
                  ('/pwr', '(*blockValidator).ValidateAsWound'), ('/pwr', '(*blockValidator).ValidateAsError')]
DRIP = [('/pwr/drip', '(*Writer).Write'), ('/pwr/drip', '(*Writer).Close')]

prop('C18',
     functions=DRIP + [('/pwr', '(*ValidatingPool).GetWriter$2'), ('/pwr/onclose', '(*Writer).Close')] + BLOCKVALIDATOR + HASHING,
     assumes=['A-MD5 (hstrong is MD5; bytes.Equal decides equality of digest values)',
              'callers respect drip.Write requires (no Write after an error; Buffer and data do not alias)'],
     not_decided='the relay goroutine of GetWriter and the construction of the drip writer in GetWriter (len(Buffer) == BlockSize) are not under contract; tiling of wound ranges across blocks follows from start == k*BS and end == start + cbs by arithmetic outside the verified text')

SIGN = [('/splitfunc', 'New$1'), ('/wsync', '(*Context).CreateSignature$1'), ('/wsync', '(*Context).CreateSignature'),
        ('/pwr', 'ComputeHashInfo'), ('/pwr', 'ReadSignature')]

prop('C04',
     functions=SIGN + BLOCKVALIDATOR + HASHING + [('/pwr', '(*ValidatorContext).Validate')],
     assumes=['A-MD5', 'A-IO: bufio.Scanner driven by the split function delivers the blocks of the content in order (token <= buffer size)',
              'A-PROTO', 'A-COMP', 'A-SIZE (well-formed container: sizes in range, unique paths)'],
     not_decided='that bufio.Scanner, the two io.Pipe readers of multiread and the (de)compressors deliver the same bytes to both producers; ReadSignature positional correspondence (see DESIGN)')

SAFEKEEPER = [('/pwr', '(*safeKeeper).getBlockValidator'), ('/pwr', '(*safeKeeper).validateBlock'), ('/pwr', '(*safeKeeperReader).Read'),
              ('/pwr', '(*safeKeeper).GetReader'), ('/pwr', '(*safeKeeperReader).Seek'), ('/wsync', '(*Context).ApplySingleFull')]

prop('C09',
     functions=SAFEKEEPER + BLOCKVALIDATOR + HASHING,
     assumes=['A-MD5 (assume iface BlockValidator: nil verdict <=> the data equals the signed block, length included)',
              'A-FULLREAD: the inner reader of an old file is a regular file (Read fills the buffer unless at end of file; errors other than io.EOF are environment faults)',
              'A-POOL: inner.GetSize(i) is the signed size of file i',
              'aligned reads: a Read never leaves the 64 KiB block it starts in (32 KiB consumer buffers; assumed for io.CopyBuffer, see DESIGN C09)',
              'environment faults (failing Seek on the old file, failing signature load) are outside the quantifier'],
     not_decided='alignment inside io.Copy with ReadFrom destinations; deleted files (the pool\'s error path); what the signature load does inside getBlockValidator (sk.open, ReadSignature, ComputeHashInfo, NewBlockValidator are in-context contracts there: a failure is an environment fault, success gives a non-nil value) -- the caching and the sticky error of getBlockValidator itself are checked')

PATCHER = [('/pwr/patcher', 'makeWop'), ('/pwr/patcher', '(*savingPatcher).isFullFileOp'), ('/pwr/patcher', '(*savingPatcher).checkOp'),
           ('/pwr/patcher', '(*savingPatcher).skipFile'), ('/pwr/patcher', '(*savingPatcher).processFile'), ('/pwr/patcher', '(*savingPatcher).Resume')]
WIRE_READ = [('/wire', 'nextPowerOf2'), ('/wire', '(*ReadContext).ReadMessage')]

prop('C17',
     functions=PATCHER + WIRE_READ,
     assumes=['A-PROTO + cross-decoding facts (asOpType in specs/wharf.spec, from the field numbers of pwr.proto/bsdiff.proto): in-context contracts of ReadMessage in skipFile',
              'A-POOL', 'collaborators (bowl, entry writers, save consumer) do not modify the patcher\'s containers or messages (pure list in specs/deps.spec)',
              'Resume is verified for a fresh start (c == nil); resuming from a checkpoint trusts the checkpoint\'s own fields'],
     not_decided='that each whitelisted file comes out identical to full application as one statement (it follows from processFile handing the same message range to processRsync/processBsdiff, whose stream consumption is under contract, see C10); reads of the recording pool')

WSYNC_DIFF = [('/wsync', 'NewBlockLibrary'), ('/wsync', '(*Context).findUniqueHash'), ('/wsync', '(*Context).ComputeDiff$2'), ('/wsync', '(*Context).ComputeDiff'),
              ('/wsync', '(*Context).ApplySingleFull'), ('/wsync', 'makeOperationCleaner$1')]

prop('C11',
     functions=WSYNC_DIFF + HASHING,
     assumes=['A-MD5', 'A-IO (io.ReadAtLeast, io.LimitReader, io.CopyBuffer: in-context contracts)', 'A-POOL', 'A-SIZE (blockSize in (0, 2^30])'],
     not_decided='that the concatenation of what the emitted operations replay equals the source (the ghost-source invariant I5-I7 of DESIGN A.1 is not carried: the check proves the bookkeeping is in range, the op-level discipline and the replay length, not the byte equality); NewBlockLibrary is not under contract yet')

prop('C08',
     functions=[('/pwr', 'makeOpsWriter$1'), ('/pwr', 'ComputeNumBlocks'), ('/pwr', 'ComputeBlockSize')] + WSYNC_DIFF + HASHING,
     assumes=['A-MD5', 'A-IO'],
     not_decided='the (2k+2)*64KiB bound for k localised edits (a resynchronisation argument over an unbounded alignment search, not a function contract); that the rolling checksum equals the from-scratch one on every full window (invariant I7 of DESIGN A.1 not carried: only the from-scratch hash is proved against the specification, and the lookup is proved to be skipped only when the rolling value is unchanged); NewBlockLibrary (bucket completeness) is not under contract')

PATCHER_SERIES_EARLY = [('/pwr/patcher', '(*savingPatcher).processRsync'), ('/pwr/patcher', '(*savingPatcher).processBsdiff')]

prop('C01',
     functions=[('/pwr', 'makeOpsWriter$1'), ('/pwr', 'CompressWire'), ('/pwr', 'ComputeNumBlocks'), ('/pwr', 'ComputeBlockSize')] + PATCHER + PATCHER_SERIES_EARLY + WSYNC_DIFF + HASHING + WIRE_READ,
     assumes=['everything C11 and C17 assume', 'A-PROTO', 'A-COMP', 'A-FS (the bowl and the file system)'],
     not_decided='byte equality of the replay with the new file (see C11: ghost-source invariant not carried); directory/symlink creation and leftover deletion (tlc.Container.Prepare, outside /repo); the three-goroutine plumbing of WritePatch beyond ownership (C15); compression round trip (external codecs)')

PATCHER_SERIES = [('/pwr/patcher', '(*savingPatcher).processRsync'), ('/pwr/patcher', '(*savingPatcher).processBsdiff')]

prop('C10',
     functions=WIRE_READ + PATCHER + PATCHER_SERIES + [('/pwr', 'ReadSignature'), ('/pwr', 'ComputeHashInfo'), ('/pwr', 'ComputeNumBlocks'), ('/pwr', 'ComputeBlockSize'),
                ('/wsync', '(*Context).ApplySingleFull')],
     assumes=['A-SIZE: the two containers of a stream are well-formed (sizes in [0, 2^50], non-nil entries); no message declares a length beyond the stream (in-context contract of binary.ReadUvarint)',
              'A-POOL: pool methods index c.Files[i]: requires 0 <= i < nfiles', 'A-PROTO', 'A-IO',
              'collaborators of the patcher (bowl, entry writers, save consumer, bsdiff patch context) do not panic and keep to their own state',
              'patcher functions are verified for a fresh start (no checkpoint): a checkpoint is the patcher\'s own saved state'],
     not_decided='memory exhaustion; panics inside dependencies beyond their stated preconditions; the optimizer (rediff), the overlay applier and bsdiff.Apply are not under contract yet')

LRUFILE = [('/bsdiff/lrufile', '(*lruFile).Seek'), ('/bsdiff/lrufile', '(*lruFile).onEvict'), ('/bsdiff/lrufile', '(*lruFile).getChunk'), ('/bsdiff/lrufile', '(*lruFile).Read')]
BSDIFF = [('/bsdiff', '(*AdderReader).Read'), ('/bsdiff', '(*IndividualPatchContext).Apply'), ('/bsdiff', 'NewPSA'), ('/bsdiff', '(*DiffContext).Do'),
          ('/bsdiff', '(*DiffContext).Do$1'), ('/bsdiff', '(*DiffContext).writeMessages')]

prop('C12',
     functions=BSDIFF + LRUFILE,
     assumes=['A-SA (gosaca requires a non-empty input; fills a permutation)', 'A-LRU (simplelru: in-context contracts of Get/Add in lrufile.getChunk; eviction only frees slots)',
              'A-FULLREAD (getChunk\'s single Read)', 'A-IO (io.CopyBuffer, io.LimitReader, bytes.Buffer: in-context contracts)',
              'channel contents: what writeMessages receives is what the scanner\'s send contract guarantees (recv clause)',
              'PSA.search returns a position and length inside the old buffer (in-context contract; search/matchlen bodies not under contract)'],
     not_decided='byte equality "controls applied to old == new" as one lemma (the Add bytes written through bytes.Buffer are not modelled); index safety of the scanner analyzeBlock (flag no-safety: only its send contract is verified); cache coherence of lrufile across evictions (only "a live slot is never reused" and the chunk arithmetic); worker/dispatcher/collector scheduling and deadlock freedom')

prop('C07',
     functions=BSDIFF + LRUFILE + PATCHER_SERIES + [('/pwr/patcher', '(*savingPatcher).skipFile')],
     assumes=['everything C12 assumes', 'A-PROTO'],
     not_decided='that the controls the differ emits reproduce the new file byte for byte (see C12: pieces proved, no single lemma); that Optimize and analyzePatch read the same patch (the mapping table is trusted to describe the stream re-read by Optimize); output compression (external codecs); the input is assumed to be a plain rsync patch (in-context contract of ReadMessage)')

OVERLAY = [('/pwr/overlay', '(*overlayWriter).fresh'), ('/pwr/overlay', '(*overlayWriter).skip'), ('/pwr/overlay', '(*overlayProcessor).write'),
           ('/pwr/overlay', '(*overlayProcessor).Write'), ('/pwr/overlay', 'NewOverlayWriter'), ('/pwr/overlay', '(*overlayWriter).Finalize'),
           ('/pwr/overlay', '(*OverlayPatchContext).Patch')]
OVERLAY_ENTRY = [('/pwr/bowl', '(*overlayEntryWriter).Save'), ('/pwr/bowl', '(*overlayEntryWriter).Resume')]

prop('C14',
     functions=OVERLAY + OVERLAY_ENTRY + WIRE_READ,
     assumes=['A-FULLREAD (the old-file reader of the overlay writer: without full reads the comparison would be misaligned after a short read)',
              'A-IO (bufio.Writer passes the byte stream through in order and calls the processor again after a short write)', 'A-PROTO'],
     not_decided='the composition lemma "truncate(patch(old, overlay), finalPos) == new" over all write partitions is not stated as one machine-checked lemma: the check proves the per-emission preconditions it follows from (SKIP only where new == old at the read offset, FRESH exactly the new content at the read offset, window fully tiled, offsets advance with every emission, applier moves/writes exactly Len/Data); truncation in applyOverlays (bowl) is not under contract')

WIRE_ALL = WIRE_READ + [('/wire', '(*countingReader).Read'), ('/wire', '(*countingReader).ReadByte'), ('/wire', 'NewReadContext$1'),
                        ('/wire', '(*ReadContext).WantSave'), ('/wire', '(*ReadContext).PopCheckpoint'), ('/wire', '(*ReadContext).Resume'),
                        ('/wire', '(*WriteContext).WriteMessage')]

prop('C13',
     functions=WIRE_ALL + [('/pwr', 'CompressWire')],
     assumes=['A-SAVIOR (Source.Resume returns the offset it resumed at; DiscardByRead consumes n bytes; the source calls OnSave eventually)',
              'A-COMP (compressors / decompressors and their checkpoints are outside /repo)', 'A-PROTO (Marshal/Unmarshal inverse; in-context contracts)',
              'A-IO (binary.ReadUvarint / PutUvarint / io.ReadFull: in-context contracts, including the C10 proviso on declared lengths)'],
     not_decided='compressors/decompressors and their checkpoint logic (savior, go-brotli, compress/gzip); gob serialisation of checkpoints; DecompressWire (external sources); that uvarint(len) ++ body read back yields the same message (A-PROTO)')

VALIDATOR = [('/pwr', '(*ValidatorContext).Validate'), ('/pwr', '(*ValidatorContext).Validate$6'), ('/pwr', '(*ValidatorContext).validate$3'),
             ('/pwr', '(*WoundsGuardian).Do'), ('/pwr', 'AggregateWounds$1'), ('/pwr', '(*ValidatingPool).GetWriter$2')]

prop('C05',
     functions=VALIDATOR + DRIP + BLOCKVALIDATOR + HASHING + [('/pwr', 'ComputeHashInfo')],
     assumes=['A-MD5', 'A-FS: Lstat/Readlink errors are "does not exist", "not a directory" or environment faults (envFault); kind predicates of os.FileInfo',
              'A-IO (io.Copy)', 'A-POOL', 'channel contents of the per-file wound stream: non-nil wounds with Start <= End (the producers\' send contracts)',
              'Validate is verified in fail-fast mode (the other consumer set-ups call external code)'],
     not_decided='that every differing offset lies inside a reported wound, as one lemma over drip + block validator + size wound (the pieces are proved: block verdict <=> hashes equal, wound range = signed block range, size deviation always wounded, aggregator never loses coverage); WoundsWriter / WoundsPrinter; the worker goroutine validate (only its doOne closure)')

prop('C16',
     functions=VALIDATOR,
     assumes=['A-SCHED (goroutines, channel FIFO)', 'A-FS'],
     not_decided='termination itself: absence of deadlock under all interleavings, more than 1024 wounds, consumer failing early (composing the local protocol facts -- re-arm the channel taken from, drain until closed, close only after the worker finished, offers in a select with cancelled -- into liveness needs a concurrency logic this family does not have); the worker sends exactly one value on errs (validate body not under contract)')

prop('C06',
     functions=VALIDATOR,
     assumes=['A-FS', 'A-POOL', 'A-IO', 'A-SCHED'],
     not_decided='the healer itself (ArchiveHealer.Do / processWound / heal / healOne and ctxcopy are not under contract yet); the interleaving of validator and healer on the same tree; that the zip holds the signed content; the resulting directory')

ARCHIVER = [('/archiver', 'ExtractZip'), ('/archiver', 'ExtractZip$3'), ('/archiver', 'ExtractZip$7'), ('/archiver', 'Mkdir'), ('/archiver', 'CompressTar$2')]

prop('C19',
     functions=ARCHIVER + [('/ctxcopy', 'DoBuffer')],
     assumes=['A-FS (os.MkdirAll, os.Open, io.Copy: unmodelled, `modifies heap`)', 'A-SCHED (the worker goroutines of ExtractZip run the literals of the fork group)',
              'in-context contracts of filepath.Rel, tar.Writer.WriteHeader and FileMode.IsRegular in the tar walk (ghost counters)',
              'frames of the ownership analysis are syntactic: captured variables and the pointers held in them, not what is reachable beyond'],
     not_decided='the round trip itself (archive codecs archive/zip, archive/tar, compress/* are outside /repo); the on-disk state after a kill at an arbitrary point (no crash model in this family: what is proved is that the resume file only ever names an index below which every entry completed); symlink targets, modes')

REDIFF = [('/pwr/rediff', '(*context).analyzePatch'), ('/pwr/rediff', '(*context).Optimize')]
DIFFPIPE = [('/pwr', '(*DiffContext).WritePatch'), ('/pwr', 'CompressWire'), ('/ctxcopy', 'DoBuffer'), ('/multiread', '(*multiread).Do'), ('/bsdiff', '(*DiffContext).Do')] + REDIFF

prop('C15',
     functions=DIFFPIPE,
     assumes=['A-SCHED: taskgroup.Do runs its function-literal arguments concurrently and returns after all of them (fork clause); the ownership frames are syntactic: captured variables and the pointers held in them',
              'wsync.Context methods only touch their own receiver and what they are handed (their contracts: modifies of ComputeDiff / CreateSignature)',
              'io.Pipe / multiread deliver the same byte sequence to both readers (outside the verified text)'],
     not_decided='byte-for-byte determinism of the patch as one statement (it follows from: each consumer is a deterministic function of the byte sequence it reads -- sequential code, proved separately under C11/C04 -- and no state is shared between the tasks, which is what is proved here); the race detector\'s view of library internals (io.Pipe, sync.Pool); GOMAXPROCS; the order in which the bsdiff collector forwards matches (strictly by block index: the channel protocol is read, not proved)')

PROPERTIES['C10']['functions'] += REDIFF
PROPERTIES['C07']['functions'] += REDIFF

BOWL_LISTS = [('/pwr/bowl', '(*overlayBowl).markMove'), ('/pwr/bowl', '(*overlayBowl).markOverlay'), ('/pwr/bowl', '(*overlayBowl).GetWriter')]
BOWL_COMMIT = [('/pwr/bowl', '(*overlayBowl).copy'), ('/pwr/bowl', '(*overlayBowl).move'), ('/pwr/bowl', '(*overlayBowl).applyMoves'),
               ('/pwr/bowl', '(*overlayBowl).applyOverlays$1'), ('/pwr/bowl', '(*overlayBowl).applyOverlays'),
               ('/pwr/bowl', '(*overlayBowl).applyTranspositions')]
BOWL_FRESH = [('/pwr/bowl', '(*freshBowl).Transpose'), ('/pwr/bowl', '(*freshBowl).GetWriter'), ('/pwr/bowl', '(*freshEntryWriter).Resume'),
              ('/pwr/bowl', '(*freshEntryWriter).Save'), ('/pwr/bowl', '(*freshEntryWriter).Write')]
PROPERTIES['C09']['functions'] += [('/pwr/bowl', '(*freshBowl).Transpose')]
PROPERTIES['C01']['functions'] += BOWL_FRESH
HEALER = [('/pwr', '(*ArchiveHealer).Do$4'), ('/pwr', 'NewHealer')]
PROPERTIES['C06']['functions'] += HEALER
PROPERTIES['C06']['not_decided'] = 'the healing worker (heal / healOne: that the zip entry written is the signed content; ctxcopy under C15); the interleaving of validator and healer on the same tree; the resulting directory as a whole; FILE wounds are only proved to be queued at most once'

prop('C02',
     functions=BOWL_LISTS + BOWL_COMMIT + [('/pwr/bowl', '(*overlayBowl).ensureDirsAndSymlinks$1')] + OVERLAY + OVERLAY_ENTRY,
     assumes=['A-FS: ghost model of the entry at one path (nothing / directory / other) with in-context contracts of screw.Lstat, RemoveAll, MkdirAll',
              'fspool.GetPath(stagePool, i) lies in the stage folder (the pool was built over StageFolder in NewOverlayBowl: not under contract)',
              'A-POOL; everything C14 assumes for the overlay stream'],
     not_decided='the commit phase AS A WHOLE: which path is renamed or copied where and in which order by applyTranspositions (clash-free renames over all map iteration orders), what deleteGhosts removes, and the resulting directory tree -- relations between whole trees over all path-level shapes are not expressible as function contracts within reach of this engine (no file-system tree model, strings are opaque).  Decided are the file-level steps and the work lists: entry writers get stage paths; copy replaces the destination (create+write+truncate) with the source bytes; move = rename or copy+remove; every file listed for a move is moved stage->output; every listed overlay is applied onto the old file opened without create/truncate and the file is cut at the applier\'s final position; the clash pre-pass examines every transposition of every group; processDir leaves a real directory; the five commit phases run in the order dirs+links, transpositions, moves, overlays, ghosts, each only after the previous one succeeded (ghost phase counter in Commit)')

prop('C03',
     functions=BOWL_LISTS + BOWL_FRESH + OVERLAY_ENTRY + WIRE_ALL + PATCHER + PATCHER_SERIES + [('/pwr/overlay', 'NewOverlayWriter'), ('/pwr/overlay', '(*overlayWriter).Finalize'), ('/pwr/overlay', '(*OverlayPatchContext).Patch')],
     assumes=['A-SAVIOR, A-COMP, A-PROTO, A-IO as in C13', 'A-FS: OpenFile without O_TRUNC keeps the bytes already on disk; Seek positions absolutely',
              'patcher functions are verified for a fresh start; the checkpoint handed to a new patcher is a serialized copy of one the patcher produced (gob round trip outside /repo)'],
     not_decided='the property itself quantifies over crash points, save schedules and partially persisted writes: no function contract states "resume from checkpoint k after a crash at any later point equals the uninterrupted run" -- that needs a crash/persistence model relating disk state to checkpoints, which this family does not have here.  What is decided are the per-layer obligations the argument rests on: wire save protocol and Resume offsets (C13), entry writers flush+sync before reporting offsets and reopen without truncation at exactly those offsets, overlay stream self-terminated and header only at offset 0 (C14), bowl work lists stay duplicate-free sets when a file is re-processed, no stale per-file checkpoint enters the next file.  Fresh-bowl entry writers, Transpose de-duplication, gob registration and decompressor checkpoints are not under contract')

# ---- a property depends on more than the functions its own contracts were written for: everything below is under
# contract anyway (result cache shared between properties), so each property also checks the contracts of the
# functions it relies on indirectly (found by the round-3 changes, DESIGN 0.6)
def _add(pid, fl):
    have = set(PROPERTIES[pid]['functions'])
    for f in fl:
        if f not in have:
            PROPERTIES[pid]['functions'].append(f)
            have.add(f)

_add('C01', SIGN + BLOCKVALIDATOR)
_add('C04', [('/ctxcopy', 'DoBuffer'), ('/multiread', '(*multiread).Do')])
_add('C06', BLOCKVALIDATOR + DRIP + HASHING + [('/pwr', 'ComputeHashInfo'), ('/ctxcopy', 'DoBuffer')])
_add('C08', SIGN)
_add('C18', [('/pwr', 'ComputeHashInfo'), ('/pwr', 'AggregateWounds$1')])
_add('C10', LRUFILE + BSDIFF)
_add('C09', LRUFILE + [('/bsdiff', '(*IndividualPatchContext).Apply'), ('/bsdiff', '(*AdderReader).Read')] + PATCHER_SERIES)
_add('C15', WSYNC_DIFF + HASHING + SIGN)
_add('C14', BOWL_LISTS)
_add('C16', BLOCKVALIDATOR + DRIP)
_add('C05', SIGN)
_add('C07', WIRE_ALL)
_add('C11', [('/pwr', 'makeOpsWriter$1')])

_add('C02', [('/pwr/bowl', '(*overlayBowl).Save'), ('/pwr/bowl', '(*overlayBowl).Resume')])
_add('C03', [('/pwr/bowl', '(*overlayBowl).Save'), ('/pwr/bowl', '(*overlayBowl).Resume')])
_add('C14', [('/pwr/bowl', '(*overlayBowl).Save'), ('/pwr/bowl', '(*overlayBowl).Resume')])
_add('C17', [('/pwr/patcher', '(*savingPatcher).SetSourceIndexWhitelist'), ('/pwr/patcher', '(*savingPatcher).GetTouchedFiles')])
_add('C17', PATCHER_SERIES)   # the series of a whitelisted file is consumed up to its end marker (seeded C17-k2)
_add('C05', [('/pwr', 'isMissing')])
_add('C06', [('/pwr', 'isMissing')])
_add('C18', [('/pwr', '(*ValidatingPool).GetWriter')])
_add('C16', [('/pwr', '(*ValidatingPool).GetWriter')])
_add('C19', [('/archiver', 'Symlink'), ('/archiver', 'CompressZip$2')])
_add('C09', [('/bsdiff', '(*PatchContext).NewIndividualPatchContext')])
_add('C12', [('/bsdiff', '(*PatchContext).NewIndividualPatchContext')])
_add('C07', [('/bsdiff', '(*PatchContext).NewIndividualPatchContext')])

_add('C02', [('/pwr/bowl', '(*overlayBowl).Transpose'), ('/pwr/bowl', 'detectGhosts'), ('/pwr/bowl', '(*overlayBowl).deleteGhosts'), ('/pwr/bowl', '(*overlayBowl).ensureDirsAndSymlinks$2')])
_add('C03', [('/pwr/bowl', '(*overlayBowl).Transpose')])
_add('C06', [('/pwr', '(*ArchiveHealer).healOne'), ('/pwr', '(*ArchiveHealer).heal'), ('/pwr', '(*Wound).Healthy')])
_add('C05', [('/pwr', '(*Wound).Healthy'), ('/pwr', '(*WoundsWriter).Do'), ('/pwr', '(*WoundsPrinter).Do')])
_add('C16', [('/pwr', '(*Wound).Healthy'), ('/pwr', '(*WoundsWriter).Do'), ('/pwr', '(*WoundsPrinter).Do')])
for _p in ('C13', 'C01', 'C07', 'C10', 'C03'):
    _add(_p, [('/pwr', 'DecompressWire')])
_add('C18', [('/pwr/onclose', '(*Writer).Write')])
_add('C19', [('/archiver', 'CopyFile'), ('/archiver', 'ExtractTar')])
for _p in ('C12', 'C09', 'C07', 'C10'):
    _add(_p, [('/bsdiff/lrufile', '(*lruFile).Reset')])

_add('C15', [('/taskgroup', 'Do'), ('/taskgroup', 'Do$1')])
_add('C19', [('/archiver', 'ExtractZip$7$1')])
for _p in ('C13', 'C10', 'C01', 'C07'):
    _add(_p, [('/wire', '(*ReadContext).ExpectMagic'), ('/wire', '(*WriteContext).WriteMagic'), ('/wire', '(*WriteContext).Close')])
for _p in ('C16', 'C05', 'C06'):
    _add(_p, [('/pwr', '(*ValidatorContext).validate')])

# round 4: more indirect dependencies
_PIPE = [('/ctxcopy', 'DoBuffer'), ('/multiread', '(*multiread).Do')]
_add('C01', _PIPE + BOWL_LISTS + BOWL_COMMIT + OVERLAY + OVERLAY_ENTRY + [('/pwr/bowl', '(*overlayBowl).Save'), ('/pwr/bowl', '(*overlayBowl).Resume'), ('/pwr/bowl', '(*overlayBowl).Transpose'), ('/pwr/bowl', 'detectGhosts'), ('/pwr/bowl', '(*overlayBowl).deleteGhosts')])
_add('C08', _PIPE)
_add('C11', SIGN)
_add('C04', [('/pwr', 'CompressWire'), ('/pwr', 'DecompressWire')] + WIRE_ALL + [('/wire', '(*ReadContext).ExpectMagic'), ('/wire', '(*WriteContext).WriteMagic'), ('/wire', '(*WriteContext).Close')])
_add('C07', PATCHER + BOWL_FRESH)
_add('C03', OVERLAY)

_CODECS = [('/compressors/gzip', '(*gzipCompressor).Apply'), ('/decompressors/gzip', '(*gzipDecompressor).Apply'), ('/decompressors/brotli', '(*brotliDecompressor).Apply')]
for _p in ('C13', 'C04', 'C01', 'C03'):
    _add(_p, _CODECS)
_add('C18', [('/pwr/bowl', '(*poolBowl).Transpose')])
_add('C01', [('/pwr/bowl', '(*poolBowl).Transpose')])
for _p in ('C13', 'C15', 'C01', 'C04'):
    _add(_p, [('/wire', 'NewWriteContext')])
_add('C15', [('/pwr/rediff', 'NewContext')])
_add('C07', [('/pwr/rediff', 'NewContext')])

# properties with a registered check
# round 5 (hard mode) strengthening
_add('C19', [('/archiver/containerarchiver', 'CompressZip')])
_add('C17', [('/pwr/bowl', '(*overlayBowl).Resume'), ('/pwr/bowl', '(*overlayBowl).Save')])
_add('C14', [('/pwr/overlay', '(*overlayWriter).ReadOffset')])
_add('C03', [('/pwr/overlay', '(*overlayWriter).ReadOffset')])
_add('C02', [('/pwr/bowl', '(*overlayBowl).Commit')])
_add('C15', [('/pwr/rediff', '(*context).Partitions'), ('/ctxcopy', 'Do')])
_add('C07', [('/pwr/rediff', '(*context).Partitions')])
_add('C06', [('/ctxcopy', 'Do')])
_add('C09', [('/wsync', 'NewContext')])
_add('C01', [('/wsync', 'NewContext')])
_add('C11', [('/wsync', '(*Context).uniqueHash')])
_add('C04', [('/wsync', '(*Context).uniqueHash')])
_add('C08', [('/pwr', '(*DiffContext).WritePatch')])
_add('C10', [('/bsdiff/lrufile', '(*lruFile).Read')])
_add('C16', [('/pwr', '(*ArchiveHealer).healOne')])
CLAIMED = {'C02', 'C03', 'C15', 'C19', 'C18', 'C04', 'C09', 'C17', 'C11', 'C08', 'C01', 'C10', 'C12', 'C07', 'C14', 'C13', 'C05', 'C16', 'C06'}
# reasons for properties not claimed (kept current)
NOT_APPLICABLE = {}
LEVEL_TEXT = {
 'C02': {'text': 'Proof of function-level clauses only (the commit phase as a whole is not decided): every entry writer handed out while patching gets the stage path of its file; existing paths are listed for an overlay (reading the old content at the index of the same path), new paths for a move; the work lists stay duplicate-free; file-level commit steps: copy replaces the destination with the source bytes (create+write+truncate), move is a rename or copy+remove, every listed move and overlay is carried out, an overlay is applied onto the old file opened without create/truncate and cut at the applier\'s final position, the clash pre-pass examines every transposition; processDir leaves a real directory (judged by Lstat of the path itself) or fails; the overlay stream clauses of C14.', 'design_ref': 'DESIGN.md §5 C02'},
 'C03': {'text': 'Proof of the per-layer obligations only (the crash/resume equivalence itself is not decided): wire save protocol and resume offsets (C13), entry-writer checkpoints exact after flush+sync and resumed at exactly those offsets without truncation, overlay stream header/terminator (C14), duplicate-free bowl work lists on re-processing, per-file checkpoint state cleared before the next file, stream-grammar consumption of the patcher (C17).', 'design_ref': 'DESIGN.md §5 C03'},
 'C15': {'text': 'Proof of the function-level clauses: the three per-file tasks of WritePatch share no written variable and use different sync contexts and different wire contexts (ownership obligations over the fork group, pointer distinctness by SMT); the reader handed to the fan-out is the one of the file being diffed; the copy loop forwards every byte read, including bytes delivered together with io.EOF, and stops on cancellation.', 'design_ref': 'DESIGN.md §5 C15'},
 'C19': {'text': 'Proof of the function-level clauses: every variable shared by the extraction workers is accessed under the common mutex (ownership obligations over the fork group); the resume file is only written with an index below which every entry has completed (markDone invariant: nextIndex advances over a contiguous completed prefix); Mkdir creates the whole path (os.MkdirAll with the destination path, never os.Mkdir); the tar walk emits a header for every regular file other than the root, empty or not; ctxcopy.DoBuffer reports the bytes written and stops on cancellation.', 'design_ref': 'DESIGN.md §5 C19'},
 'C18': {'text': 'Proof (modular, unbounded in write slicing and sizes): drip.Write/Close keep the ghost relation between accepted, validated and forwarded bytes for every slicing; the validate closure advances the block index once per call and emits one wound per call; ValidateAsWound/AsError decide exactly healthyBlock and report the signed block range.', 'design_ref': 'DESIGN.md §5 C18, App. A.2'},
 'C09': {'text': 'Proof: every byte a safekeeper Read hands out without error is a byte of the signed file (validated block + aligned read), nothing beyond the signed length is handed out, io.EOF is only reported at the signed end, the verdict cache only remembers valid for blocks that are on disk unchanged, and an undamaged file is never rejected at any offset 0..S.', 'design_ref': 'DESIGN.md §5 C09'},
 'C17': {'text': 'Proof: skipFile consumes exactly the rest of the series up to and including its end marker for either series kind (stream-grammar ghost + protobuf cross-decoding facts) and touches neither pool nor bowl (frame); Resume checks the header index and kind before consulting the whitelist, skips only unlisted files, processes only listed ones, and counts exactly the processed files.', 'design_ref': 'DESIGN.md §5 C17, App. A.5'},
 'C11': {'text': 'Proof (unbounded in source length, block size and library): every index into the reusable buffer is in range across wraps and refills; every operation goes through enqueue; no data op exceeds MaxDataOp; a pending block range is extended only by the adjacent range of the same file and is forwarded before any data op; a block is accepted only on equal strong hash and short-size class, never for an empty window, and the bucket search is complete with the preferred file first; a block range replays spanLen bytes from bs*k.', 'design_ref': 'DESIGN.md §5 C11, App. A.1'},
 'C08': {'text': 'Proof of the function-level clauses: reused + fresh byte accounting grows by exactly what each operation replays (spanLen over the old file size / len(Data)); the from-scratch weak hash equals its recursive specification; matching is complete within a bucket, preferred file first; the bucket lookup is skipped only when the rolling value did not change; no match is accepted on the weak hash alone.', 'design_ref': 'DESIGN.md §5 C08'},
 'C01': {'text': 'Proof of the per-file function-level clauses that diff-then-apply rests on: whole-file-op detection is sound (same size, starts at block 0, spans all blocks, index in range), op <-> message field mapping in both directions, unknown op types are errors, per-file framing is consumed up to the end marker, no compressor is involved exactly when the algorithm is NONE, plus everything proved for C11.', 'design_ref': 'DESIGN.md §5 C01'},
 'C10': {'text': 'Proof (safety sweep with contracts): every slice/index expression, division, make and pool call of the functions on the read paths under contract is in range for arbitrary field values read from a stream; every message loop has a decreasing measure (unread bytes / block index); old-file indices are validated before they reach the container or the pool.', 'design_ref': 'DESIGN.md §5 C10'},
 'C12': {'text': 'Proof of the function-level clauses: Apply reads the add run at OldOffset (seek first), adds byte-wise mod 256, writes the copy run and moves the offset by len(Add)+Seek, depending on nothing else (resume from a saved offset); lrufile never reuses a live slot, reads the chunk of the offset, never hands out bytes beyond the file and reports io.EOF only with a short read; the differ\'s partition/scan-block arithmetic never divides by zero, never sorts an empty partition, tiles the new buffer; every match has its add run before its copy run inside both buffers; Seek is the gap to the next add run.', 'design_ref': 'DESIGN.md §5 C12'},
 'C07': {'text': 'Proof of the clauses the optimizer\'s output correctness rests on: the rewritten stream keeps the per-file grammar (header with the file\'s own index, bsdiff header naming the mapped old file, one end marker per series, nothing after it), unmapped files are copied op by op, the differ is handed the old and the new file both rewound to offset 0 and in this order; the mapping is chosen among validated old-file indices by a total order; termination without crash of the differ for all partition settings (C12 arithmetic); bsdiff series consumed and skipped by their grammar in the patcher.', 'design_ref': 'DESIGN.md §5 C07'},
 'C14': {'text': 'Proof (unbounded in file sizes, window contents and write partition): every SKIP covers only bytes where the new content equals the old file at the current read offset, every FRESH is exactly the new content at the read offset, each window is fully tiled and the read offset advances by the window length with the reader kept aligned; the header is written exactly at overlay offset 0 so a resumed session continues the same stream; the end marker follows a flush; the applier moves by Len on SKIP, writes Data on FRESH and stops at the marker; a checkpoint reads its offsets after flush+sync and Resume repositions reader, stage file and overlay writer at exactly those offsets without truncating.', 'design_ref': 'DESIGN.md §5 C14, App. A.3'},
 'C13': {'text': 'Proof of wharf\'s side: a message is written as uvarint(len) then body with a large-enough varint buffer; ReadMessage consumes at least one byte, never more than the stream holds, regrows its buffer to at least the declared length, and resets the message before decoding on every path; the reader offset counts every delivered byte; the three-state save protocol (ask only from idle, keep the checkpoint given, pop exactly once with Offset = reader offset); Resume leaves reader and source at checkpoint.Offset (discarding the gap, rejecting a source that resumed later) and resets the save state; no compressor is involved exactly when the algorithm is NONE.', 'design_ref': 'DESIGN.md §5 C13'},
 'C05': {'text': 'Proof of the function-level clauses: kind checks do not follow symlinks; a missing / not-a-directory entry is a wound, never a plain error; every wound offered for a file names it and has 0 <= Start <= End; a byte count different from the signed size is always wounded (shorter or longer); the aggregator never loses coverage and flushes before closing; the fail-fast consumer returns nil only after a clean closed stream; block verdicts decide exactly hash equality over the signed block range.', 'design_ref': 'DESIGN.md §5 C05'},
 'C16': {'text': 'Proof of the safety half and of the local protocol obligations: nil from the fail-fast consumer only after the stream was closed without a wound (never on cancellation); an error from worker or consumer is returned; the result channel taken from is the one re-armed; the wound stream is closed only after the worker finished; the consumer goroutine sends one result and then drains until closed; wounds are offered in a select with cancelled.', 'design_ref': 'DESIGN.md §5 C16'},
 'C06': {'text': 'Proof of clause (i) and of the wound handler: in the directory, symlink and file passes a deviation (missing entry, parent not a directory, wrong kind, wrong size) leads to a wound, not to a returned error; a DIR wound handled without error leaves a real directory at the path (judged without following links), a SYMLINK wound the wanted link, a FILE wound is queued at most once; the healer spec is split at the first comma only. The healing worker is not under contract.', 'design_ref': 'DESIGN.md §5 C06'},
 'C04': {'text': 'Proof of the function-level clauses: split function cases, one hash per scanned block plus the empty-file entry with correct index/short size, hash grouping by prefix sums of per-file hash counts (ComputeHashInfo, incl. error iff count differs), block validator verdicts; rolling/from-scratch weak hash equals the recursive specification.', 'design_ref': 'DESIGN.md §5 C04'},
}
