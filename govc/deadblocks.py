"""developer aid: which basic blocks of the functions under contract are unreachable under the contract's precondition?
   VERIF_BLOCK_COVER=1 python3 -m govc.deadblocks [pkgsuffix]
Not used by any registered check.  An unreachable block (other than a panic / impossible-default block) means the
precondition cuts a branch off: a change in that branch is invisible (this is how the `requires c.RsyncCheckpoint == nil`
hole of round 5 would have been found before a seeded change found it)."""
import os, sys
os.environ['VERIF_BLOCK_COVER'] = '1'
if os.environ.get("PYTHONHASHSEED") != "0":
    os.execve(sys.executable, [sys.executable, "-m", "govc.deadblocks"] + sys.argv[1:], dict(os.environ, PYTHONHASHSEED="0"))
from .engine import Engine, discharge_many, ob_ok


def main():
    eng = Engine(os.environ.get('VERIF_REPO', '/repo'))
    want = sys.argv[1] if len(sys.argv) > 1 else ''
    jobs = []
    for pk, short, fn, spec in eng.functions_under_contract():
        if want and not pk.endswith(want):
            continue
        if fn is None or (spec is not None and spec.trusted):
            continue
        run = eng.analyze(pk, short)
        for o in run.obls:
            if o.kind == 'cover' and ':block' in o.name and not getattr(o, 'is_before', False):
                jobs.append((run, o))
    print('%d block covers' % len(jobs), flush=True)
    discharge_many(jobs, timeout=5, procs=14)
    for run, o in jobs:
        r = o.result or {}
        if r.get('result') == 'unsat':
            print('UNREACHABLE %s' % o.name)


main()
