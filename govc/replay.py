"""Counterexample replay (DESIGN §3.6).  Models are candidates until a run of the real code confirms them."""
import json
import os
import re
import shutil
import subprocess
import tempfile


def go_env():
    env = dict(os.environ)
    env['GOFLAGS'] = '-mod=mod'
    env['GOPROXY'] = 'off'
    env.pop('GOSUMDB', None)
    env.pop('GOTOOLCHAIN', None)
    return env


def run_overlay_test(repo, pkgdir, test_src, run_name, timeout=120, race=False):
    """inject test_src as <pkgdir>/zz_verif_replay_test.go via -overlay; returns (rc, output)."""
    tmp = tempfile.mkdtemp(prefix='govc-replay-')
    try:
        tfile = os.path.join(tmp, 'zz_verif_replay_test.go')
        open(tfile, 'w').write(test_src)
        ov = {'Replace': {os.path.join(repo, pkgdir, 'zz_verif_replay_test.go'): tfile}}
        ovf = os.path.join(tmp, 'overlay.json')
        json.dump(ov, open(ovf, 'w'))
        cmd = ['go', 'test', '-overlay', ovf, '-vet=off', '-count=1', '-timeout', '60s', '-run', run_name, './' + pkgdir]
        if race:
            cmd.insert(2, '-race')
        p = subprocess.run('ulimit -v 8000000; ' + ' '.join("'%s'" % c for c in cmd), shell=True, cwd=repo, env=go_env(),
                           stdout=subprocess.PIPE, stderr=subprocess.STDOUT, timeout=timeout, universal_newlines=True)
        return p.returncode, p.stdout
    except subprocess.TimeoutExpired:
        return 124, 'replay timed out'
    finally:
        shutil.rmtree(tmp, ignore_errors=True)


def try_replay(run, ob, model, doc):
    """returns (confirmed, note).  Drivers are registered per function in replay_drivers.DRIVERS."""
    try:
        from .replay_drivers import DRIVERS
    except Exception as e:  # no drivers available
        return False, 'no replay driver (%s)' % e
    drv = DRIVERS.get(run.fn['name'])
    if drv is None:
        return False, 'no replay driver for %s' % run.fn['name']
    try:
        return drv(run, ob, model, doc)
    except Exception as e:
        return False, 'replay driver failed: %r' % (e,)


def replay_file(path):
    doc = json.load(open(path))
    print(json.dumps({k: doc.get(k) for k in ('property', 'obligation', 'clause', 'pos', 'solver_result', 'model',
                                              'confirmed', 'replay_note')}, indent=1))
    if doc.get('replay_test'):
        rc, out = run_overlay_test(doc.get('repo', '/repo'), doc['replay_pkgdir'], doc['replay_test'], doc['replay_run'])
        print(out[-3000:])
        return 1 if rc != 0 else 0
    return 1
