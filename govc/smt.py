"""SMT-LIB2 printing and solver racing (DESIGN §3.5)."""
import hashlib
import os
import re
import subprocess
import tempfile
import threading
import time

from . import terms as T

SOLVERS = {
    'z3-new': lambda f, t: ['z3-new', '-T:%d' % t, f],
    'z3': lambda f, t: ['/usr/bin/z3', '-T:%d' % t, f],
    'cvc5': lambda f, t: ['cvc5', '--tlimit=%d' % (t * 1000), '--produce-models', f],
}

MAX_QUERY_BYTES = 6000000


def sym(name):
    s = re.sub(r'[^A-Za-z0-9_.$!]', '_', name)
    return 'v_' + s


def sort_str(s):
    if isinstance(s, str):
        return s
    return '(Array %s %s)' % (sort_str(s[1]), sort_str(s[2]))


class Printer:
    def __init__(self, nlmul=False):
        self.nlmul = nlmul
        self.nlseen = set()
        self.decls = {}      # symbol -> decl line
        self.order = []
        self.defs = []       # let-style definitions as asserts
        self.memo = {}
        self.divmod = {}     # (x, c) -> (q, r)
        self.extra = []      # extra assertions (div/mod elimination facts)
        self.items = []      # ordered declarations and definitions
        self.sorts = {}
        self.ndefs = 0

    def sort_of(self, t):
        r = self.sorts.get(t)
        if r is None:
            k = t[0]
            if k == 'a' and t[1] == 'ite':
                r = self.sort_of(t[4])
            elif k == 'a' and t[1] == 'select':
                r = self.sort_of(t[2])[2]
            elif k == 'a' and t[1] == 'store':
                r = self.sort_of(t[2])
            else:
                r = T.sort_of(t)
            self.sorts[t] = r
        return r

    def share(self, t, r, bound):
        """name large closed subterms so that the query stays DAG-sized."""
        if bound or len(r) < 120:
            return r
        self.ndefs += 1
        name = 'd!%d' % self.ndefs
        self.items.append('(define-fun %s () %s %s)' % (name, sort_str(self.sort_of(t)), r))
        return name

    def declare_var(self, name, sort):
        s = sym(name)
        if s not in self.decls:
            self.decls[s] = '(declare-fun %s () %s)' % (s, sort_str(sort))
            self.order.append(s)
            self.items.append(self.decls[s])
        return s

    def declare_uf(self, op):
        name = op[3:]
        s = sym(name)
        if s not in self.decls:
            args, res = T.uf_sorts[op]
            self.decls[s] = '(declare-fun %s (%s) %s)' % (s, ' '.join(sort_str(a) for a in args), sort_str(res))
            self.order.append(s)
            self.items.append(self.decls[s])
        return s

    def p(self, t, bound=frozenset()):
        k = t[0]
        if k == 'i':
            return str(t[1]) if t[1] >= 0 else '(- %d)' % (-t[1])
        if k == 'b':
            return 'true' if t[1] else 'false'
        if k == 'v':
            if t[1] in bound:
                return sym(t[1])
            return self.declare_var(t[1], t[2])
        key = (t, bound) if bound else t
        r = self.memo.get(key)
        if r is not None:
            return r
        if k == 'q':
            b2 = bound | frozenset(n for n, _ in t[2])
            vs = ' '.join('(%s %s)' % (sym(n), sort_str(s)) for n, s in t[2])
            body = self.p(t[3], b2)
            pats = ''
            if t[4]:
                pats = ' '.join(':pattern (%s)' % ' '.join(self.p(x, b2) for x in p) for p in t[4])
                r = '(%s (%s) (! %s %s))' % (t[1], vs, body, pats)
            else:
                r = '(%s (%s) %s)' % (t[1], vs, body)
            self.memo[key] = r
            return r
        op = t[1]
        args = t[2:]
        if op in ('div', 'mod') and args[1][0] == 'i' and args[1][1] > 0 and not (bound and (T.free_vars(args[0]).keys() & bound)):
            q, rr = self.elim_divmod(args[0], args[1][1])
            r = self.p(q if op == 'div' else rr, bound)
            self.memo[key] = r
            return r
        if op.startswith('uf:'):
            f = self.declare_uf(op)
            if not args:
                r = f
            else:
                r = '(%s %s)' % (f, ' '.join(self.p(x, bound) for x in args))
        elif op == '*' and self.nlmul and len(args) == 2 and args[0][0] != 'i' and args[1][0] != 'i':
            # symbolic product as an uninterpreted (commutative) function: congruence + sign/unit facts only
            if 'v_nlmul' not in self.decls:
                self.decls['v_nlmul'] = '(declare-fun v_nlmul (Int Int) Int)'
                self.items.append(self.decls['v_nlmul'])
            a, b = sorted([self.p(args[0], bound), self.p(args[1], bound)])
            r = '(v_nlmul %s %s)' % (a, b)
            if not bound and (a, b) not in self.nlseen:
                self.nlseen.add((a, b))
                self.nlfacts = getattr(self, 'nlfacts', [])
                self.nlfacts.append('(assert (=> (and (>= %s 0) (>= %s 0)) (>= %s 0)))' % (a, b, r))
                self.nlfacts.append('(assert (=> (or (= %s 0) (= %s 0)) (= %s 0)))' % (a, b, r))
                self.nlfacts.append('(assert (=> (= %s 1) (= %s %s)))' % (a, r, b))
                self.nlfacts.append('(assert (=> (= %s 1) (= %s %s)))' % (b, r, a))
                self.nlfacts.append('(assert (= %s (v_nlmul %s %s)))' % (r, b, a))
        elif op == 'neg':
            r = '(- %s)' % self.p(args[0], bound)
        elif op == 'distinct' and len(args) < 2:
            r = 'true'
        else:
            r = '(%s %s)' % (op, ' '.join(self.p(x, bound) for x in args))
        r = self.share(t, r, bound)
        self.memo[key] = r
        return r

    def elim_divmod(self, x, c):
        key = (x, c)
        if key in self.divmod:
            return self.divmod[key]
        q = T.fresh('dq')
        r = T.fresh('dr')
        self.divmod[key] = (q, r)
        # x = c*q + r, 0 <= r < c
        fact = T.and_(T.eq(x, T.add(T.mul(q, T.I(c)), r)), T.le(T.ZERO, r), T.lt(r, T.I(c)))
        self.extra.append(fact)
        return q, r


def skolemize_goal(goal):
    """not(goal): universals of the goal become fresh constants."""
    while goal[0] == 'q' and goal[1] == 'forall':
        m = {}
        for n, s in goal[2]:
            m[n] = T.fresh('sk_' + n.split('!')[0], s)
        goal = T.substitute(goal[3], m)
    return goal


def skolemize_positive(t):
    """replace universally quantified subformulas in positive positions of a goal by skolem instances
    (the goal is going to be negated: forall in positive position becomes existential)."""
    if t[0] == 'q' and t[1] == 'forall':
        m = {}
        for n, s_ in t[2]:
            m[n] = T.fresh('sk_' + n.split('!')[0], s_)
        return skolemize_positive(T.substitute(t[3], m))
    if t[0] == 'a' and t[1] == 'and':
        return T.and_(*[skolemize_positive(x) for x in t[2:]])
    if t[0] == 'a' and t[1] == '=>':
        return T.implies(t[2], skolemize_positive(t[3]))
    return t


def split_goal(goal):
    """goal A => (B => C) ... yields (hyps, conclusion) after skolemising nested foralls."""
    hyps = []
    while True:
        goal = skolemize_goal(goal)
        if goal[0] == 'a' and goal[1] == '=>':
            hyps.append(goal[2])
            goal = goal[3]
            continue
        break
    return hyps, skolemize_positive(goal)


# ---------------------------------------------------------------- generator-side instantiation

def collect_selects(t, acc, bound=frozenset()):
    """collect (array, index) of select terms that contain no bound variables."""
    for s in T.subterms(t):
        if s[0] == 'a' and s[1] == 'select':
            acc.add((s[2], s[3]))


def array_component(a):
    """heap component an array term belongs to ('' = unknown: matches everything)."""
    seen = 0
    while seen < 50:
        seen += 1
        if a[0] == 'v':
            n = a[1]
            i = n.find('|')
            if i < 0:
                return ''
            n = n[i + 1:]
            j = n.rfind('!')
            if j >= 0:
                n = n[:j]
            return n.rstrip('@')
        if a[0] == 'a' and a[1] == 'store':
            a = a[2]
            continue
        if a[0] == 'a' and a[1] == 'ite':
            a = a[3]
            continue
        if a[0] == 'a' and a[1] == 'select':
            a = a[2]
            continue
        return ''
    return ''


def ground_index_terms(ts, include_uf=False, bound_names=()):
    """{component: {linear form: term}} of the ground index terms at which arrays are read"""
    idx = {}
    for t in ts:
        if t[0] == 'q':
            continue
        for s in T.subterms(t):
            if s[0] == 'q':
                continue
            if s[0] == 'a' and s[1] == 'select':
                if T.sort_of(s[3]) == T.INT and not bound_in(s[3], bound_names):
                    idx.setdefault(array_component(s[2]), {}).setdefault(T.linear(s[3]), s[3])
            elif include_uf and s[0] == 'a' and s[1].startswith('uf:spec_'):
                for a in s[2:]:
                    if a[0] != 'b' and T.sort_of(a) == T.INT and not bound_in(a, bound_names):
                        idx.setdefault(s[1], {}).setdefault(T.linear(a), a)
    return idx


def bound_in(t, bound_names):
    """does t mention a quantifier-bound variable?"""
    if not bound_names:
        return False
    for n in T.free_vars(t):
        if n in bound_names:
            return True
    return False


def has_quant(t):
    for s in T.subterms(t):
        if s[0] == 'q':
            return True
    return False


def flatten_conj(t, out):
    if t[0] == 'a' and t[1] == 'and':
        for x in t[2:]:
            flatten_conj(x, out)
    else:
        out.append(t)


def split_quants(hyps):
    ground = []
    quants = []
    for h in hyps:
        parts = []
        flatten_conj(h, parts)
        for p in parts:
            g, body = T.TRUE, p
            while body[0] == 'a' and body[1] == '=>' and has_quant(body[3]) and not has_quant(body[2]):
                g = T.and_(g, body[2])
                body = body[3]
            sub = []
            flatten_conj(body, sub)
            for s_ in sub:
                if has_quant(s_):
                    quants.append((g, s_))
                else:
                    ground.append(T.implies(g, s_))
    return ground, quants


def instantiate(hyps, goal_parts, rounds=2, per_quant=400, cap=8000, unfold=None):
    """returns (ground hyps incl. instances, had_quantifiers)."""
    ground, quants = split_quants(hyps)
    if not quants:
        return ground, False
    bound_names = set()
    for h in hyps:
        for s_ in T.subterms(h):
            if s_[0] == 'q':
                for n, _ in s_[2]:
                    bound_names.add(n)
    insts = []
    seen = set()
    import itertools
    for rnd in range(rounds):
        idx = ground_index_terms(ground + insts + goal_parts, include_uf=True, bound_names=bound_names)
        new = []
        for g, q in quants:
            if not (q[0] == 'q' and q[1] == 'forall'):
                continue
            vars_ = q[2]
            body = q[3]
            bnames = [n for n, _ in vars_]
            pats = set()
            for s in T.subterms(body):
                if s[0] == 'a' and s[1] == 'select':
                    pats.add((array_component(s[2]), s[3]))
                elif s[0] == 'a' and s[1].startswith('uf:spec_'):
                    for a in s[2:]:
                        if a[0] != 'b' and T.sort_of(a) == T.INT:
                            pats.add((s[1], a))

            def pool(comp):
                if comp == '':
                    out = {}
                    for d_ in idx.values():
                        out.update(d_)
                    return out
                out = dict(idx.get(comp, {}))
                out.update(idx.get('', {}))
                return out
            cands = {n: {} for n in bnames}
            multi = []
            for comp, pexp in sorted(pats, key=lambda x: (x[0], len(repr(x[1])), repr(x[1]))):
                fv = T.free_vars(pexp)
                inv = [n for n in bnames if n in fv]
                if len(inv) == 1:
                    n = inv[0]
                    for e in sorted(pool(comp).values(), key=lambda x: (len(repr(x)), repr(x))):
                        sol = T.solve_for(n, pexp, e)
                        if sol is not None:
                            cands[n].setdefault(T.linear(sol), sol)
                elif len(inv) == 2:
                    multi.append((comp, pexp, inv))
            # patterns over two bound variables: fix one from its single-variable candidates, solve for the other;
            # the resulting PAIRS are instantiated as such (no cross product)
            pairs = []
            for comp, pexp, inv in multi:
                for a, b in ((inv[0], inv[1]), (inv[1], inv[0])):
                    if cands[b]:
                        for bv in sorted(cands[b].values(), key=lambda x: (len(repr(x)), repr(x)))[:40]:
                            p2 = T.substitute(pexp, {b: bv})
                            for e in sorted(pool(comp).values(), key=lambda x: (len(repr(x)), repr(x))):
                                sol = T.solve_for(a, p2, e)
                                if sol is not None:
                                    pairs.append({a: sol, b: bv})
            combos = []
            if len(bnames) == 2 and pairs:
                seenp = set()
                for pr_ in pairs:
                    key = tuple(T.linear(pr_[n]) for n in bnames)
                    if key in seenp:
                        continue
                    seenp.add(key)
                    combos.append(tuple(pr_[n] for n in bnames))
                combos = combos[:240]
            lists = [sorted(cands[n].values(), key=lambda x: (len(repr(x)), repr(x))) for n in bnames]
            if all(lists):
                total = 1
                for l in lists:
                    total *= len(l)
                if total > per_quant:
                    k = max(1, int(per_quant ** (1.0 / len(lists))))
                    lists = [l[:k] for l in lists]
                combos.extend(itertools.product(*lists))
            if not combos:
                continue
            for combo in combos:
                key = (q, combo)
                if key in seen:
                    continue
                seen.add(key)
                m = dict(zip(bnames, combo))
                inst = T.substitute(body, m)
                if has_quant(inst):
                    continue
                new.append(T.implies(g, inst))
            if len(insts) + len(new) > cap:
                break
        if not new:
            break
        insts.extend(new)
        if unfold is not None:
            ground = ground + unfold(new)
    return ground + insts, True


# ---------------------------------------------------------------- query building

def build_query(hyps, goal, quantified=False, models=True, extra_instances=True, nlmul=False, unfold=None):
    """Returns (text, info).  Query is sat iff goal can fail under hyps."""
    saved = T.swap_counter(start=50000000)
    try:
        return _build_query(hyps, goal, quantified, models, extra_instances, nlmul, unfold)
    finally:
        T.swap_counter(new=saved)


def _build_query(hyps, goal, quantified=False, models=True, extra_instances=True, nlmul=False, unfold=None):
    ghyps, concl = split_goal(goal)
    all_h = list(hyps) + ghyps
    # an existential conclusion: its negation is a universal hypothesis (instantiated like the others)
    parts_ = []
    flatten_conj(concl, parts_)
    if len(parts_) == 1 and concl[0] == 'q' and concl[1] == 'exists':
        all_h.append(T.forall(concl[2], T.not_(concl[3])))
        concl = T.FALSE
    info = {'instantiated': False}
    if unfold is not None:
        all_h = all_h + unfold(all_h + [concl])
    if not quantified:
        hs, inst = instantiate(all_h, [concl], unfold=unfold)
        info['instantiated'] = inst
    else:
        hs = all_h
    pr = Printer(nlmul=nlmul)
    lines = []
    body = []
    for h in hs:
        if h[0] == 'b' and h[1]:
            continue
        body.append('(assert %s)' % pr.p(h))
    body.append('(assert (not %s))' % pr.p(concl))
    # div/mod elimination facts may themselves create more
    k = 0
    while k < len(pr.extra):
        body.append('(assert %s)' % pr.p(pr.extra[k]))
        k += 1
    body.extend(getattr(pr, 'nlfacts', []))
    lines.append('(set-option :produce-models true)' if models else '')
    lines.append('(set-logic ALL)')
    # declarations/definitions were collected in dependency order while printing;
    # assertions come after all of them
    lines.extend(pr.items)
    lines.extend(body)
    lines.append('(check-sat)')
    if models:
        lines.append('(get-model)')
    text = '\n'.join(l for l in lines if l) + '\n'
    info['bytes'] = len(text)
    return text, info


_cache_lock = threading.Lock()
CACHE_DIR = os.environ.get('GOVC_CACHE', '')


def run_solver(name, path, timeout):
    t0 = time.time()
    try:
        p = subprocess.run(SOLVERS[name](path, timeout), stdout=subprocess.PIPE, stderr=subprocess.PIPE,
                           timeout=timeout + 5, universal_newlines=True)
        out = p.stdout
    except subprocess.TimeoutExpired:
        return 'timeout', '', time.time() - t0
    first = out.strip().split('\n', 1)[0].strip() if out.strip() else ''
    if first not in ('sat', 'unsat', 'unknown'):
        if 'timeout' in out or 'interrupted' in out.lower():
            first = 'timeout'
        else:
            first = 'error:' + (out.strip()[:200] or p.stderr.strip()[:200])
    return first, out, time.time() - t0


def solve(text, timeout=10, solvers=('z3-new', 'z3', 'cvc5'), want_all=False, tmpdir=None):
    """Race solvers on one query.  Returns dict(result, solver, time, output, per_solver)."""
    h = hashlib.sha256(text.encode()).hexdigest()
    if CACHE_DIR and not want_all:
        cp = os.path.join(CACHE_DIR, h + '.res')
        if os.path.exists(cp):
            try:
                import json
                r = json.load(open(cp))
                r['cached'] = True
                return r
            except Exception:
                pass
    fd, path = tempfile.mkstemp(suffix='.smt2', dir=tmpdir)
    with os.fdopen(fd, 'w') as f:
        f.write(text)
    per = {}
    result = {'result': 'unknown', 'solver': None, 'time': 0.0, 'output': '', 'hash': h}
    try:
        if want_all:
            ths = []

            def w(n):
                per[n] = run_solver(n, path, timeout)
            for n in solvers:
                th = threading.Thread(target=w, args=(n,))
                th.start()
                ths.append(th)
            for th in ths:
                th.join()
        else:
            # sequential with escalating trust: first definite answer wins
            first = solvers[0]
            per[first] = run_solver(first, path, timeout)
            if per[first][0] not in ('unsat', 'sat'):
                ths = []

                def w(n):
                    per[n] = run_solver(n, path, timeout)
                for n in solvers[1:]:
                    th = threading.Thread(target=w, args=(n,))
                    th.start()
                    ths.append(th)
                for th in ths:
                    th.join()
    finally:
        os.unlink(path)
    tot = 0.0
    for n in solvers:
        if n in per:
            tot += per[n][2]
    for want in ('unsat', 'sat'):
        for n in solvers:
            if n in per and per[n][0] == want:
                result.update(result=want, solver=n, time=per[n][2], output=per[n][1])
                break
        if result['solver']:
            break
    if not result['solver']:
        st = [per[n][0] for n in solvers if n in per]
        result['result'] = 'timeout' if all(s == 'timeout' for s in st) else 'unknown'
        result['output'] = '; '.join('%s=%s' % (n, per[n][0]) for n in per)
    result['per_solver'] = {n: {'result': per[n][0], 'time': round(per[n][2], 3)} for n in per}
    result['total_time'] = tot
    if CACHE_DIR and not want_all and result['result'] in ('sat', 'unsat'):
        try:
            import json
            os.makedirs(CACHE_DIR, exist_ok=True)
            with _cache_lock:
                json.dump(result, open(os.path.join(CACHE_DIR, h + '.res'), 'w'))
        except Exception:
            pass
    return result


def parse_model(output):
    """very small s-expression reader for (define-fun name () Int value) entries."""
    m = {}
    for mm in re.finditer(r'\(define-fun\s+(\S+)\s+\(\)\s+(Int|Bool)\s+((?:\(-\s*\d+\))|\S+?)\)', output):
        name, sort, val = mm.group(1), mm.group(2), mm.group(3)
        if sort == 'Int':
            val = val.replace('(', '').replace(')', '').replace(' ', '')
            try:
                m[name] = int(val)
            except ValueError:
                pass
        else:
            m[name] = (val == 'true')
    return m


def race(jobs, timeout, tmpdir=None, stop_on=('unsat',)):
    """jobs: list of (label, solver, text).  Runs them all in parallel, returns as soon as one answers with a result
    in stop_on (others are killed).  Returns (winner_label or None, {label: (result, output, time)})."""
    procs = []
    files = []
    t0 = time.time()
    for label, solver, text in jobs:
        fd, path = tempfile.mkstemp(suffix='.smt2', dir=tmpdir)
        with os.fdopen(fd, 'w') as f:
            f.write(text)
        files.append(path)
        p = subprocess.Popen(SOLVERS[solver](path, timeout), stdout=subprocess.PIPE, stderr=subprocess.PIPE,
                             universal_newlines=True)
        procs.append((label, solver, p))
    results = {}
    winner = None
    try:
        pending = list(procs)
        while pending and winner is None:
            for item in list(pending):
                label, solver, p = item
                if p.poll() is not None:
                    out = p.stdout.read()
                    first = out.strip().split('\n', 1)[0].strip() if out.strip() else ''
                    if first not in ('sat', 'unsat', 'unknown'):
                        first = 'timeout' if ('timeout' in out or 'interrupted' in out.lower() or not out.strip()) else 'error:' + out.strip()[:200]
                    results[label] = (first, out, time.time() - t0)
                    pending.remove(item)
                    if first in stop_on:
                        winner = label
                        break
            if winner is None and pending:
                if time.time() - t0 > timeout + 1.5:
                    break
                time.sleep(0.01)
    finally:
        for label, solver, p in procs:
            if p.poll() is None:
                try:
                    p.kill()
                except Exception:
                    pass
                results.setdefault(label, ('timeout', '', time.time() - t0))
            try:
                p.stdout.close()
                p.stderr.close()
            except Exception:
                pass
        for f in files:
            try:
                os.unlink(f)
            except Exception:
                pass
    return winner, results
