"""regenerate /verif/MANIFEST.json from properties.py (keeps it valid and in step with what is claimed)."""
import json
import os
import subprocess

from .properties import PROPERTIES, CLAIMED, NOT_APPLICABLE, LEVEL_TEXT

VERIF = os.path.dirname(os.path.dirname(os.path.abspath(__file__)))


def main():
    props = [json.loads(l) for l in open(os.path.join(VERIF, 'properties.jsonl'))]
    try:
        commits = subprocess.run(['git', '-C', '/repo', 'log', '--format=%H %s'], stdout=subprocess.PIPE,
                                 universal_newlines=True).stdout.strip().split('\n')
        hook_commits = [c.split()[0] for c in commits if 'verif hooks' in c]
    except Exception:
        hook_commits = []
    m = {
        'version': 1,
        'setup_cmd': 'cd /verif/tools/gossa && env -u GOSUMDB -u GOTOOLCHAIN GOFLAGS=-mod=mod GOPROXY=off go build -o /verif/bin/gossa . && python3 -m compileall -q /verif/govc',
        'hooks': {
            'guard': 'verif',
            'enable': 'build tag `verif`: the only hooks are comment-only files <pkg>/contracts_verif.go (//go:build verif) holding the //@ contracts; tools/gossa loads /repo with -tags verif; replay tests enter through `go test -overlay`, never through the repository',
            'baseline_off_cmd': 'cd /repo && env -u GOSUMDB -u GOTOOLCHAIN GOFLAGS=-mod=mod GOPROXY=off go test -vet=off -count=1 ./...',
            'source_commits': hook_commits,
            'add_only': True,
        },
        'engines': [
            {'name': 'gossa', 'path': 'tools/gossa', 'serves_properties': sorted(CLAIMED),
             'kind_free_text': 'mechanical extraction of the real code to typed SSA (golang.org/x/tools/go/ssa, NaiveForm) on every run'},
            {'name': 'govc', 'path': 'govc', 'serves_properties': sorted(CLAIMED),
             'kind_free_text': 'contract-based deductive verifier: modular symbolic execution of the SSA against //@ contracts, one SMT-LIB2 query per named obligation, discharged by z3 5.1.0 / z3 4.8.12 / cvc5 1.0.3'},
        ],
        'checks': [],
        'not_applicable': [],
        'notes': 'See DESIGN.md. A PASS means: every obligation generated from /repo\'s current source for the functions under contract was discharged; what each property leaves undecided is listed in level_note and in the evidence file (coverage.not_decided, trusted_base).',
    }
    for p in props:
        pid = p['id']
        if pid in CLAIMED:
            cfg = PROPERTIES[pid]
            lt = LEVEL_TEXT.get(pid, {})
            m['checks'].append({
                'property_id': pid,
                'quick_cmd': 'bin/check %s quick' % pid,
                'thorough_cmd': 'bin/check %s thorough' % pid,
                'evidence_file': 'evidence/%s.json' % pid,
                'replay_cmd_template': 'bin/check --replay {path}',
                'engine': 'govc',
                'level_claimed': {'category': 'proof',
                                  'text': lt.get('text', 'modular deductive proof of the listed function contracts'),
                                  'design_ref': lt.get('design_ref', 'DESIGN.md §5 ' + pid)},
                'level_note': 'Assumes: %s. Not decided: %s' % (', '.join(cfg.get('assumes', [])) or 'none', cfg.get('not_decided') or 'nothing beyond the assumptions'),
                'technique': lt.get('technique', 'contract-based deductive verification: weakest-precondition style VCs over go/ssa of the real functions, discharged by z3/cvc5'),
            })
        else:
            m['not_applicable'].append({'property_id': pid, 'reason': NOT_APPLICABLE.get(pid, 'check not built yet (engine under construction); see DESIGN.md §8.6')})
    json.dump(m, open(os.path.join(VERIF, 'MANIFEST.json'), 'w'), indent=1)
    print('MANIFEST.json: %d checks, %d not applicable' % (len(m['checks']), len(m['not_applicable'])))


if __name__ == '__main__':
    main()
