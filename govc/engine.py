"""Engine: program + specs -> obligations -> solver results."""
import concurrent.futures
import glob
import os
import time

from . import terms as T
from . import smt
from .cparse import Specs, parse_file
from .ssa import load, MOD
from .values import Types
from .exec_core import FuncRun

VERIF = os.path.dirname(os.path.dirname(os.path.abspath(__file__)))


class Engine:
    def __init__(self, repo='/repo', prog=None):
        self.repo = repo
        self.prog = prog or load(repo)
        self.ty = Types(self.prog)
        self.specs = Specs()
        self.specs.ghostfields = {}
        self.load_specs()
        self.runs = {}

    def load_specs(self):
        for f in sorted(glob.glob(os.path.join(VERIF, 'specs', '*.spec'))):
            parse_file(f, self.specs, pkgpath=None, go_file=False, allow_assume=os.path.basename(f) == 'deps.spec')
        for pp in self.prog.packages:
            rel = pp[len(MOD):].lstrip('/')
            path = os.path.join(self.repo, rel, 'contracts_verif.go')
            if os.path.exists(path):
                parse_file(path, self.specs, pkgpath=pp, go_file=True)
        # ghost fields declared as `spec uf` with sort prefix 'ghostfield'? -> declared in specs via consts; see wharf.spec
        for name, sf in list(self.specs.specfuncs.items()):
            if name.startswith('gf_'):
                self.specs.ghostfields[name] = sf.sort

    def functions_under_contract(self, pkgs=None):
        out = []
        for (pk, short), spec in self.specs.funcs.items():
            if spec.assumed or pk is None:
                continue
            if pkgs and pk not in pkgs:
                continue
            fn = self.prog.find(pk, short)
            out.append((pk, short, fn, spec))
        return out

    def analyze(self, pk, short):
        key = (pk, short)
        if key in self.runs:
            return self.runs[key]
        spec = self.specs.funcs.get(key)
        fn = self.prog.find(pk, short)
        if fn is None:
            r = MissingRun(pk, short, spec)
            self.runs[key] = r
            return r
        run = FuncRun(self.prog, self.specs, fn, spec, engine=self)
        t0 = time.time()
        if spec is not None and spec.trusted:
            run.trusted = spec.trusted
        else:
            try:
                run.run()
            except RecursionError:
                run.errors.append('recursion limit during symbolic execution')
        run.gen_time = time.time() - t0
        self.runs[key] = run
        return run


class MissingRun:
    def __init__(self, pk, short, spec):
        self.oname = pk.rsplit('/', 1)[-1] + '.' + short
        self.obls = []
        self.errors = ['function under contract not found in the code: %s %s' % (pk, short)]
        self.abstracted = []
        self.unmodelled = set()
        self.assumed_used = set()
        self.pure_used = set()
        self.inlined = set()
        self.hyps = []
        self.rec_defs = []
        self.gen_time = 0.0
        self.fn = {'name': pk + '.' + short}
        self.mode = 'math'


def relevant_hyps(hyps, goal, extra=()):
    """cone of influence over shared symbols (variables and uninterpreted functions)."""
    def syms(t):
        s = set(T.free_vars(t).keys())
        for x in T.subterms(t):
            if x[0] == 'a' and x[1].startswith('uf:'):
                s.add(x[1])
        return s
    hs = [(h, syms(h)) for h in hyps]
    want = syms(goal)
    for e in extra:
        want |= syms(e)
    chosen = [False] * len(hs)
    changed = True
    while changed:
        changed = False
        for i, (h, s) in enumerate(hs):
            if chosen[i]:
                continue
            if not s or (s & want):
                chosen[i] = True
                if not s <= want:
                    want |= s
                    changed = True
    return [h for (h, _), c in zip(hs, chosen) if c]


def _cache_get(key):
    if not smt.CACHE_DIR:
        return None
    p = os.path.join(smt.CACHE_DIR, key + '.res')
    if os.path.exists(p):
        try:
            import json
            return json.load(open(p))
        except Exception:
            return None
    return None


def _cache_put(key, res):
    if not smt.CACHE_DIR:
        return
    try:
        import json
        os.makedirs(smt.CACHE_DIR, exist_ok=True)
        r = {k: v for k, v in res.items() if k != 'query'}
        json.dump(r, open(os.path.join(smt.CACHE_DIR, key + '.res'), 'w'))
    except Exception:
        pass


def discharge(run, ob, timeout=10, want_all=False):
    """solve one obligation; fills ob.result.
    stage 1: quantifier-free (generator-instantiated) query on z3-new, short timeout;
    stage 2: every remaining (query form x solver) pair raced in parallel, first `unsat` wins.
    A `sat` is definitive only for a query without quantified hypotheses (form 'ground')."""
    import hashlib
    if ob.result is not None and ob.result.get('trivial'):
        return ob.result
    hyps = run.hyps[:ob.nhyps]
    hyps = relevant_hyps(hyps, ob.goal)
    unfold = run.make_unfolder() if hasattr(run, 'make_unfolder') else None
    nlmul = 'nlmul' in (run.spec.flags if getattr(run, 'spec', None) is not None else ())
    qkey = None
    if 'slow' in (run.spec.flags if getattr(run, 'spec', None) is not None else ()):
        timeout = timeout * 6         # a function whose obligations are known to need E-matching over nested quantifiers
        if not ob.expect_sat:
            # the instantiated form of these queries is huge and slow to generate: look the result up by the quantified text
            try:
                tq, _ = smt.build_query(hyps, ob.goal, quantified=True, nlmul=nlmul, unfold=run.make_unfolder() if unfold else None)
                qkey = hashlib.sha256((tq + '|q|%d' % timeout).encode()).hexdigest()
                cached = _cache_get(qkey)
                if cached is not None and cached.get('result') == 'unsat':
                    cached['cached'] = True
                    cached['query'] = tq
                    ob.result = cached
                    return cached
            except Exception:
                qkey = None
    try:
        text, info = smt.build_query(hyps, ob.goal, quantified=False, nlmul=nlmul, unfold=unfold)
    except Exception as e:  # printing problem = engine bug; counts as failed
        ob.result = {'result': 'error', 'solver': None, 'time': 0.0, 'output': 'query generation failed: %r' % (e,)}
        return ob.result
    if len(text) > smt.MAX_QUERY_BYTES:
        ob.result = {'result': 'error', 'solver': None, 'time': 0.0, 'output': 'query too large (%d bytes)' % len(text)}
        return ob.result
    form = 'instantiated' if info['instantiated'] else 'ground'
    key = hashlib.sha256((text + '|%d|%s' % (timeout, 'sat' if ob.expect_sat else 'unsat')).encode()).hexdigest()
    cached = _cache_get(key)
    if cached is not None:
        cached['cached'] = True
        cached['query'] = text
        ob.result = cached
        return cached
    per = {}
    stop = ('sat',) if ob.expect_sat else ('unsat',)
    text2 = None
    if info['instantiated'] and not ob.expect_sat:
        try:
            text2, info2 = smt.build_query(hyps, ob.goal, quantified=True, nlmul=nlmul, unfold=run.make_unfolder() if unfold else None)
        except Exception:
            text2 = None
    if ob.expect_sat:
        # vacuity canaries: only `unsat` (contradictory hypotheses) matters; do not wait long for a model
        w, rs = smt.race([('%s@z3-new' % form, 'z3-new', text)], min(timeout, 3), stop_on=('sat', 'unsat'))
        r1 = rs.get('%s@z3-new' % form, ('timeout', '', 0.0))
        res = {'result': r1[0], 'solver': 'z3-new', 'time': r1[2], 'output': r1[1], 'form': form}
        per.update(rs)
    else:
        jobs1 = [('%s@z3-new' % form, 'z3-new', text)]
        huge = text2 is not None and len(text) > 1500000 and len(text2) * 8 < len(text)
        if huge:
            jobs1 = []            # instance explosion: the quantified form is the only one with a chance
        if text2 is not None:
            jobs1.append(('quantified@z3-new', 'z3-new', text2))
            jobs1.append(('quantified@z3', 'z3', text2))
            if huge:
                jobs1.append(('quantified@cvc5', 'cvc5', text2))
        w, rs = smt.race(jobs1, timeout if huge else min(timeout, 6), stop_on=('unsat',) if form != 'ground' else ('sat', 'unsat'))
        per.update(rs)
        res = None
        if w is not None:
            f, sv = w.split('@')
            res = {'result': rs[w][0], 'solver': sv, 'time': rs[w][2], 'output': rs[w][1], 'form': f}
            if f == 'quantified':
                text = text2
        else:
            jobs = [('%s@z3' % form, 'z3', text), ('%s@cvc5' % form, 'cvc5', text)] if not huge else []
            if not huge and rs.get('%s@z3-new' % form, ('timeout',))[0] not in ('sat', 'unsat') and timeout > 4:
                jobs.append(('%s@z3-new' % form, 'z3-new', text))
            if text2 is not None and not huge:
                jobs.append(('quantified@z3', 'z3', text2))
                jobs.append(('quantified@cvc5', 'cvc5', text2))
                if timeout > 4:
                    jobs.append(('quantified@z3-new', 'z3-new', text2))
            w, rs = smt.race(jobs, timeout, stop_on=stop) if jobs else (None, {})
            for k_, v_ in rs.items():
                if k_ not in per or v_[0] in ('sat', 'unsat'):
                    per[k_] = v_
            if w is not None:
                f, sv = w.split('@')
                res = {'result': rs[w][0], 'solver': sv, 'time': rs[w][2], 'output': rs[w][1], 'form': f}
                if f == 'quantified':
                    text = text2
            else:
                best = None
                for lab, (r, out, tm) in per.items():
                    if r == 'sat':
                        best = (lab, r, out, tm)
                        break
                if best is None:
                    st = [r for r, _, _ in per.values()]
                    rr = 'timeout' if all(x == 'timeout' for x in st) else 'unknown'
                    res = {'result': rr, 'solver': None, 'time': float(timeout), 'form': form,
                           'output': '; '.join('%s=%s' % (l, v[0]) for l, v in per.items())}
                else:
                    f, sv = best[0].split('@')
                    res = {'result': best[1], 'solver': sv, 'time': best[3], 'output': best[2], 'form': f}
                    if f != 'ground':
                        res['candidate_model'] = True
    res['per_solver'] = {}
    for lab, (r, out, tm) in per.items():
        sv = lab.split('@')[1]
        d = res['per_solver'].setdefault(sv, {'result': r, 'time': 0.0})
        d['time'] = round(d['time'] + tm, 3)
        if r in ('unsat', 'sat'):
            d['result'] = r
    res['bytes'] = len(text)
    res['hash'] = hashlib.sha256(text.encode()).hexdigest()
    # only definitive answers are remembered: `unsat`, or `sat` of a quantifier-free query.  A `sat` of the instantiated
    # form is a candidate (the quantified form may still be refuted by another solver on another, less loaded, run)
    if res['result'] == 'unsat' or (res['result'] == 'sat' and res.get('form') == 'ground'):
        _cache_put(key, res)
        if qkey is not None and res['result'] == 'unsat':
            _cache_put(qkey, res)
    res['query'] = text
    ob.result = res
    return res


_JOBS = []
_TIMEOUT = 10


def _work(i):
    run, ob = _JOBS[i]
    try:
        r = discharge(run, ob, _TIMEOUT)
    except Exception as e:  # engine failure counts as a failed obligation, never as a pass
        r = {'result': 'error', 'solver': None, 'time': 0.0, 'output': 'discharge crashed: %r' % (e,)}
    return i, r


def discharge_many(jobs, timeout=10, procs=10):
    """jobs: list of (run, obligation).  Query generation is CPU-bound Python, so fan out over forked processes
    (the runs are inherited by fork, only results travel back)."""
    global _JOBS, _TIMEOUT
    jobs = [(r, o) for r, o in jobs if not (o.result and o.result.get('trivial'))]
    if not jobs:
        return
    _JOBS = jobs
    _TIMEOUT = timeout
    import multiprocessing
    ctx = multiprocessing.get_context('fork')
    n = max(1, min(procs, len(jobs)))
    with ctx.Pool(n) as pool:
        for i, r in pool.imap_unordered(_work, range(len(jobs)), chunksize=1):
            jobs[i][1].result = r
    # second chance for undecided obligations: solver timeouts under a loaded machine must not become alarms.
    # Retried a few at a time with a longer timeout; a definitive `sat` (ground query) is not retried.
    retry = []
    for i, (run, ob) in enumerate(jobs):
        r = ob.result or {}
        if ob.expect_sat:
            continue
        if r.get('result') in ('unknown', 'timeout') or (r.get('result') == 'sat' and r.get('form') != 'ground'):
            retry.append(i)
    if retry and len(retry) <= 12:
        _TIMEOUT = max(timeout * 3, 30)
        saved_cache = smt.CACHE_DIR
        with ctx.Pool(min(3, len(retry))) as pool:
            for i, r in pool.imap_unordered(_work, retry, chunksize=1):
                if r.get('result') == 'unsat':
                    r['retried'] = True
                    jobs[i][1].result = r
                elif jobs[i][1].result.get('result') in ('unknown', 'timeout') and r.get('result') == 'sat':
                    jobs[i][1].result = r
        _TIMEOUT = timeout


def discharge_all(run, timeout=10, jobs=16, want_all=False):
    discharge_many([(run, o) for o in run.obls], timeout, jobs)


def ob_ok(ob):
    r = ob.result or {}
    if ob.expect_sat:
        if r.get('result') != 'unsat':
            return True
        # unsatisfiable path condition: a vacuity problem only if the point was reachable before the assumption
        pair = getattr(ob, 'pair', None)
        if pair is not None and (pair.result or {}).get('result') == 'unsat':
            return True
        return getattr(ob, 'is_before', False)
    return r.get('result') == 'unsat'
