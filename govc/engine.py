"""Engine: program + specs -> obligations -> solver results."""
import concurrent.futures
import glob
import os
import time

from . import terms as T
from . import smt
from .cparse import Specs, parse_file
from .ssa import load, MOD
from .values import Types
from .exec_core import FuncRun

VERIF = os.path.dirname(os.path.dirname(os.path.abspath(__file__)))


class Engine:
    def __init__(self, repo='/repo', prog=None):
        self.repo = repo
        self.prog = prog or load(repo)
        self.ty = Types(self.prog)
        self.specs = Specs()
        self.specs.ghostfields = {}
        self.load_specs()
        self.runs = {}

    def load_specs(self):
        for f in sorted(glob.glob(os.path.join(VERIF, 'specs', '*.spec'))):
            parse_file(f, self.specs, pkgpath=None, go_file=False, allow_assume=os.path.basename(f) == 'deps.spec')
        for pp in self.prog.packages:
            rel = pp[len(MOD):].lstrip('/')
            path = os.path.join(self.repo, rel, 'contracts_verif.go')
            if os.path.exists(path):
                parse_file(path, self.specs, pkgpath=pp, go_file=True)
        # ghost fields declared as `spec uf` with sort prefix 'ghostfield'? -> declared in specs via consts; see wharf.spec
        for name, sf in list(self.specs.specfuncs.items()):
            if name.startswith('gf_'):
                self.specs.ghostfields[name] = sf.sort

    def functions_under_contract(self, pkgs=None):
        out = []
        for (pk, short), spec in self.specs.funcs.items():
            if spec.assumed or pk is None:
                continue
            if pkgs and pk not in pkgs:
                continue
            fn = self.prog.find(pk, short)
            out.append((pk, short, fn, spec))
        return out

    def analyze(self, pk, short):
        key = (pk, short)
        if key in self.runs:
            return self.runs[key]
        spec = self.specs.funcs.get(key)
        fn = self.prog.find(pk, short)
        if fn is None:
            r = MissingRun(pk, short, spec)
            self.runs[key] = r
            return r
        run = FuncRun(self.prog, self.specs, fn, spec, engine=self)
        t0 = time.time()
        if spec is not None and spec.trusted:
            run.trusted = spec.trusted
        else:
            try:
                run.run()
            except RecursionError:
                run.errors.append('recursion limit during symbolic execution')
        run.gen_time = time.time() - t0
        self.runs[key] = run
        return run


class MissingRun:
    def __init__(self, pk, short, spec):
        self.oname = pk.rsplit('/', 1)[-1] + '.' + short
        self.obls = []
        self.errors = ['function under contract not found in the code: %s %s' % (pk, short)]
        self.abstracted = []
        self.unmodelled = set()
        self.assumed_used = set()
        self.pure_used = set()
        self.inlined = set()
        self.hyps = []
        self.rec_defs = []
        self.gen_time = 0.0
        self.fn = {'name': pk + '.' + short}
        self.mode = 'math'


def relevant_hyps(hyps, goal, extra=()):
    """cone of influence over shared symbols (variables and uninterpreted functions)."""
    def syms(t):
        s = set(T.free_vars(t).keys())
        for x in T.subterms(t):
            if x[0] == 'a' and x[1].startswith('uf:'):
                s.add(x[1])
        return s
    hs = [(h, syms(h)) for h in hyps]
    want = syms(goal)
    for e in extra:
        want |= syms(e)
    chosen = [False] * len(hs)
    changed = True
    while changed:
        changed = False
        for i, (h, s) in enumerate(hs):
            if chosen[i]:
                continue
            if not s or (s & want):
                chosen[i] = True
                if not s <= want:
                    want |= s
                    changed = True
    return [h for (h, _), c in zip(hs, chosen) if c]


def discharge(run, ob, timeout=10, want_all=False):
    """solve one obligation; fills ob.result"""
    if ob.result is not None and ob.result.get('trivial'):
        return ob.result
    hyps = run.hyps[:ob.nhyps] + list(run.rec_defs)
    hyps = relevant_hyps(hyps, ob.goal)
    t0 = time.time()
    try:
        nlmul = 'nlmul' in (run.spec.flags if getattr(run, 'spec', None) is not None else ())
        text, info = smt.build_query(hyps, ob.goal, quantified=False, nlmul=nlmul)
    except Exception as e:  # printing problem = engine bug; counts as failed
        ob.result = {'result': 'error', 'solver': None, 'time': 0.0, 'output': 'query generation failed: %r' % (e,)}
        return ob.result
    if len(text) > smt.MAX_QUERY_BYTES:
        ob.result = {'result': 'error', 'solver': None, 'time': 0.0, 'output': 'query too large (%d bytes)' % len(text)}
        return ob.result
    res = smt.solve(text, timeout=timeout, want_all=want_all)
    res['form'] = 'instantiated' if info['instantiated'] else 'ground'
    res['bytes'] = len(text)
    res['query'] = text
    if res['result'] != 'unsat' and info['instantiated'] and not ob.expect_sat:
        # secondary: quantified form with the solvers' own instantiation (can only help with unsat)
        text2, info2 = smt.build_query(hyps, ob.goal, quantified=True, nlmul=nlmul)
        res2 = smt.solve(text2, timeout=timeout, want_all=want_all)
        if res2['result'] == 'unsat':
            res2['form'] = 'quantified'
            res2['bytes'] = len(text2)
            res2['query'] = text2
            res = res2
        else:
            res['candidate_model'] = True
    ob.result = res
    return res


def discharge_all(run, timeout=10, jobs=16, want_all=False):
    obs = [o for o in run.obls if not (o.result and o.result.get('trivial'))]
    with concurrent.futures.ThreadPoolExecutor(max_workers=jobs) as ex:
        list(ex.map(lambda o: discharge(run, o, timeout, want_all), obs))


def ob_ok(ob):
    r = ob.result or {}
    if ob.expect_sat:
        return r.get('result') != 'unsat'
    return r.get('result') == 'unsat'
