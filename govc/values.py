"""Symbolic values and type flattening."""
from . import terms as T


class SliceV:
    __slots__ = ('base', 'off', 'len', 'cap', 'elem', 'is_array')

    def __init__(self, base, off, len_, cap, elem, is_array=False):
        self.base, self.off, self.len, self.cap, self.elem, self.is_array = base, off, len_, cap, elem, is_array

    def __repr__(self):
        return 'SliceV(%r,%r,%r,%r,%s)' % (self.base, self.off, self.len, self.cap, self.elem)


class StructV:
    __slots__ = ('tname', 'fields')

    def __init__(self, tname, fields):
        self.tname, self.fields = tname, fields

    def __repr__(self):
        return 'StructV(%s,%r)' % (self.tname, self.fields)


class TupleV:
    __slots__ = ('items',)

    def __init__(self, items):
        self.items = list(items)

    def __repr__(self):
        return 'TupleV(%r)' % (self.items,)


class PtrV:
    """kind: 'cell' (a=cellid) | 'field' (a=ref, b=struct type name) | 'elem' (a=base, b=index, c=elem type) | 'box' (a=ref, b=type)
    path: tuple of field names below the designated storage."""
    __slots__ = ('kind', 'a', 'b', 'c', 'path')

    def __init__(self, kind, a, b=None, c=None, path=()):
        self.kind, self.a, self.b, self.c, self.path = kind, a, b, c, tuple(path)

    def key(self):
        return (self.kind, self.a, self.b, self.c, self.path)

    def __repr__(self):
        return 'PtrV%r' % (self.key(),)


class ClosureV:
    __slots__ = ('fn', 'bindings')

    def __init__(self, fn, bindings):
        self.fn, self.bindings = fn, list(bindings)

    def __repr__(self):
        return 'ClosureV(%s)' % self.fn


class SeqV:
    """ghost sequence: SMT array Int->Int; (no length: contracts carry lengths as separate ghost ints)."""
    __slots__ = ('arr',)

    def __init__(self, arr):
        self.arr = arr


class Unsupported(Exception):
    pass


def is_term(v):
    return isinstance(v, tuple)


class Types:
    """type helper bound to a Program."""

    def __init__(self, prog):
        self.prog = prog
        self._leaves = {}
        self.type_ids = {}

    def under(self, tn):
        return self.prog.under(tn)

    def kind(self, tn):
        return self.prog.kind(tn)

    def type_id(self, tn):
        if tn not in self.type_ids:
            self.type_ids[tn] = 1000 + len(self.type_ids)
        return self.type_ids[tn]

    def int_range(self, tn):
        un, t = self.under(tn)
        if t.get('kind') != 'basic' or not t.get('integer'):
            return None
        name = t['name']
        table = {
            'int': (-(1 << 63), (1 << 63) - 1), 'int64': (-(1 << 63), (1 << 63) - 1),
            'int32': (-(1 << 31), (1 << 31) - 1), 'int16': (-(1 << 15), (1 << 15) - 1), 'int8': (-128, 127),
            'uint': (0, (1 << 64) - 1), 'uint64': (0, (1 << 64) - 1), 'uintptr': (0, (1 << 64) - 1),
            'uint32': (0, (1 << 32) - 1), 'uint16': (0, (1 << 16) - 1), 'uint8': (0, 255), 'byte': (0, 255),
            'rune': (-(1 << 31), (1 << 31) - 1), 'untyped int': None, 'untyped rune': None,
        }
        return table.get(name)

    def is_unsigned(self, tn):
        r = self.int_range(tn)
        return r is not None and r[0] == 0

    def is_float(self, tn):
        un, t = self.under(tn)
        return t.get('kind') == 'basic' and (t.get('float') or t['name'].startswith('complex') or t['name'] == 'untyped float')

    def is_bool(self, tn):
        un, t = self.under(tn)
        return t.get('kind') == 'basic' and t.get('boolean')

    def is_string(self, tn):
        un, t = self.under(tn)
        return t.get('kind') == 'basic' and t.get('string')

    def elem(self, tn):
        un, t = self.under(tn)
        return t.get('elem')

    def struct_fields(self, tn):
        un, t = self.under(tn)
        if t.get('kind') != 'struct':
            raise Unsupported('not a struct: %s' % tn)
        return [(f['name'], f['type']) for f in t['fields']]

    def leaves(self, tn):
        """list of (path, sort, leaf type) ; path is a tuple of field names / '#base' etc."""
        r = self._leaves.get(tn)
        if r is not None:
            return r
        un, t = self.under(tn)
        k = t.get('kind')
        if k == 'struct':
            out = []
            for f in t['fields']:
                for p, s, lt in self.leaves(f['type']):
                    out.append(((f['name'],) + p, s, lt))
        elif k in ('slice', 'array'):
            out = [(('#base',), T.INT, 'int'), (('#off',), T.INT, 'int'), (('#len',), T.INT, 'int'), (('#cap',), T.INT, 'int')]
        elif k == 'basic' and t.get('boolean'):
            out = [((), T.BOOL, tn)]
        elif k == 'tuple':
            out = []
            for i, e in enumerate(t['elems']):
                for p, s, lt in self.leaves(e):
                    out.append((('#%d' % i,) + p, s, lt))
        else:
            out = [((), T.INT, tn)]
        self._leaves[tn] = out
        return out

    def unflatten(self, terms_, tn):
        it = iter(terms_)
        return self._unflat(it, tn)

    def _unflat(self, it, tn):
        un, t = self.under(tn)
        k = t.get('kind')
        if k == 'struct':
            return StructV(tn, {f['name']: self._unflat(it, f['type']) for f in t['fields']})
        if k in ('slice', 'array'):
            b, o, l, c = next(it), next(it), next(it), next(it)
            return SliceV(b, o, l, c, t['elem'], is_array=(k == 'array'))
        if k == 'tuple':
            return TupleV([self._unflat(it, e) for e in t['elems']])
        return next(it)

    def flatten(self, v, tn):
        out = []
        self._flat(v, tn, out)
        return out

    def _flat(self, v, tn, out):
        un, t = self.under(tn)
        k = t.get('kind')
        if k == 'struct':
            if not isinstance(v, StructV):
                raise Unsupported('flatten: expected struct for %s, got %r' % (tn, v))
            for f in t['fields']:
                self._flat(v.fields[f['name']], f['type'], out)
        elif k in ('slice', 'array'):
            if not isinstance(v, SliceV):
                raise Unsupported('flatten: expected slice for %s, got %r' % (tn, v))
            out.extend([v.base, v.off, v.len, v.cap])
        elif k == 'tuple':
            for i, e in enumerate(t['elems']):
                self._flat(v.items[i], e, out)
        else:
            if not is_term(v):
                raise Unsupported('flatten: non-term scalar for %s: %r' % (tn, v))
            out.append(v)

    def zero(self, tn, fresh_ref=None):
        un, t = self.under(tn)
        k = t.get('kind')
        if k == 'struct':
            return StructV(tn, {f['name']: self.zero(f['type'], fresh_ref) for f in t['fields']})
        if k == 'slice':
            return SliceV(T.ZERO, T.ZERO, T.ZERO, T.ZERO, t['elem'])
        if k == 'array':
            base = fresh_ref() if fresh_ref else T.fresh('arrbase')
            n = T.I(t['len'])
            return SliceV(base, T.ZERO, n, n, t['elem'], is_array=True)
        if k == 'basic' and t.get('boolean'):
            return T.FALSE
        if k == 'tuple':
            return TupleV([self.zero(e, fresh_ref) for e in t['elems']])
        return T.ZERO

    def symbolic(self, tn, prefix):
        vals = []
        for p, s, lt in self.leaves(tn):
            nm = prefix + ''.join('.' + x for x in p)
            vals.append(T.V(T.fresh_name(nm), s))
        return self.unflatten(vals, tn)

    def facts(self, v, tn, wrapmode=False, depth=0):
        """typing facts of a value."""
        out = []
        un, t = self.under(tn)
        k = t.get('kind')
        if k == 'struct':
            if depth < 3:
                for f in t['fields']:
                    out.extend(self.facts(v.fields[f['name']], f['type'], wrapmode, depth + 1))
        elif k in ('slice', 'array'):
            out.append(T.le(T.ZERO, v.off))
            out.append(T.le(T.ZERO, v.len))
            out.append(T.le(v.len, v.cap))
            out.append(T.le(v.cap, T.I(1 << 48)))
            out.append(T.le(v.off, T.I(1 << 48)))
            out.append(T.le(T.ZERO, v.base))
        elif k == 'basic' and t.get('integer'):
            r = self.int_range(tn)
            if r is not None and (r[0] == 0 or wrapmode or (r[1] < (1 << 62))):
                out.append(T.le(T.I(r[0]), v))
                out.append(T.le(v, T.I(r[1])))
        elif k == 'basic' and t.get('string'):
            pass
        elif k in ('pointer', 'map', 'chan', 'interface', 'signature'):
            out.append(T.le(T.ZERO, v))
        return out
