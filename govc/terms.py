"""Term DAG for govc: tuples, light simplification, sorts.

Terms:
  ('i', n)                      integer literal
  ('b', True/False)             boolean literal
  ('v', name, sort)             variable / constant symbol
  ('a', op, arg, ...)           application; op in OPS or 'uf:<name>:<ressort>'
  ('q', 'forall'|'exists', ((name, sort), ...), body)
Sorts: 'Int', 'Bool', ('Array', s1, s2)
"""
import itertools

INT = 'Int'
BOOL = 'Bool'


def ARR(a, b):
    return ('Array', a, b)


AII = ARR(INT, INT)
AIB = ARR(INT, BOOL)

_counter = itertools.count(1)


class Tm(tuple):
    """tuple with cached hash (terms are deep DAGs; plain tuple hashing is exponential on them)."""

    def __hash__(self):
        d = self.__dict__
        h = d.get('_h')
        if h is None:
            h = tuple.__hash__(self)
            d['_h'] = h
        return h


_intern = {}


def mk(*parts):
    t = Tm(parts)
    return _intern.setdefault(t, t)


def fresh_name(prefix):
    return '%s!%d' % (prefix, next(_counter))


def counter_peek():
    global _counter
    n = next(_counter)
    _counter = itertools.chain([n], _counter)
    return n


def var_serial(name):
    i = name.rfind('!')
    if i < 0:
        return -1
    try:
        return int(name[i + 1:])
    except ValueError:
        return -1


def swap_counter(new=None, start=None):
    """replace the name counter (returns the old one): build_query numbers its own auxiliary names from a fixed base so
    that the text of a query does not depend on which other queries were generated before it"""
    global _counter
    old = _counter
    _counter = new if new is not None else itertools.count(start)
    return old


def reset_counter():
    """names need to be unique within one function's analysis only; restarting makes queries reproducible
    (and cacheable) regardless of the order in which functions are analysed."""
    global _counter
    _counter = itertools.count(1)


def I(n):
    return ('i', int(n))


def Bc(b):
    return ('b', bool(b))


TRUE = ('b', True)
FALSE = ('b', False)
ZERO = ('i', 0)
ONE = ('i', 1)


def V(name, sort=INT):
    return ('v', name, sort)


def fresh(prefix, sort=INT):
    return ('v', fresh_name(prefix), sort)


def is_int_lit(t):
    return t[0] == 'i'


def is_bool_lit(t):
    return t[0] == 'b'


def sort_of(t):
    k = t[0]
    if k == 'i':
        return INT
    if k == 'b':
        return BOOL
    if k == 'v':
        return t[2]
    if k == 'q':
        return BOOL
    op = t[1]
    if op in ('+', '-', '*', 'div', 'mod', 'neg', 'abs'):
        return INT
    if op in ('<', '<=', '=', 'not', 'and', 'or', '=>', 'distinct'):
        return BOOL
    if op == 'ite':
        return sort_of(t[3])
    if op == 'select':
        s = sort_of(t[2])
        return s[2]
    if op == 'store':
        return sort_of(t[2])
    if op.startswith('uf:'):
        return uf_sorts[op][1]
    raise ValueError('sort_of: %r' % (t,))


# uninterpreted functions: op name 'uf:<name>' -> (argsorts, ressort)
uf_sorts = {}


def UF(name, argsorts, ressort):
    op = 'uf:' + name
    if op in uf_sorts:
        assert uf_sorts[op] == (tuple(argsorts), ressort), (name, uf_sorts[op], argsorts, ressort)
    else:
        uf_sorts[op] = (tuple(argsorts), ressort)

    def apply_uf(*args):
        assert len(args) == len(argsorts), (name, args)
        return mk('a', op, *args)
    return apply_uf


def add(*xs):
    c = 0
    rest = []
    for x in xs:
        if x[0] == 'i':
            c += x[1]
        elif x[0] == 'a' and x[1] == '+':
            for y in x[2:]:
                if y[0] == 'i':
                    c += y[1]
                else:
                    rest.append(y)
        else:
            rest.append(x)
    if not rest:
        return I(c)
    if c != 0:
        rest.append(I(c))
    if len(rest) == 1:
        return rest[0]
    return mk('a', '+', *rest)


def neg(x):
    if x[0] == 'i':
        return I(-x[1])
    if x[0] == 'a' and x[1] == 'neg':
        return x[2]
    return mk('a', 'neg', x)


def sub(x, y):
    if x == y:
        return ZERO
    if y[0] == 'i':
        return add(x, I(-y[1]))
    if x[0] == 'i' and x[1] == 0:
        return neg(y)
    return mk('a', '-', x, y)


def mul(x, y):
    if x[0] == 'i' and y[0] == 'i':
        return I(x[1] * y[1])
    if x[0] == 'i':
        x, y = y, x
    if y[0] == 'i':
        if y[1] == 0:
            return ZERO
        if y[1] == 1:
            return x
    return mk('a', '*', x, y)


def sdiv(x, y):
    """SMT-LIB div (floor for positive divisor)."""
    if x[0] == 'i' and y[0] == 'i' and y[1] > 0:
        return I(x[1] // y[1])
    if y[0] == 'i' and y[1] == 1:
        return x
    return mk('a', 'div', x, y)


def smod(x, y):
    if x[0] == 'i' and y[0] == 'i' and y[1] > 0:
        return I(x[1] % y[1])
    if y[0] == 'i' and y[1] == 1:
        return ZERO
    return mk('a', 'mod', x, y)


def lt(x, y):
    if x[0] == 'i' and y[0] == 'i':
        return Bc(x[1] < y[1])
    if x == y:
        return FALSE
    return mk('a', '<', x, y)


def le(x, y):
    if x[0] == 'i' and y[0] == 'i':
        return Bc(x[1] <= y[1])
    if x == y:
        return TRUE
    return mk('a', '<=', x, y)


def gt(x, y):
    return lt(y, x)


def ge(x, y):
    return le(y, x)


def eq(x, y):
    if x == y:
        return TRUE
    if x[0] in 'ib' and y[0] in 'ib':
        return Bc(x[1] == y[1])
    if x[0] == 'b':
        return y if x[1] else not_(y)
    if y[0] == 'b':
        return x if y[1] else not_(x)
    return mk('a', '=', x, y)


def ne(x, y):
    return not_(eq(x, y))


def not_(x):
    if x[0] == 'b':
        return Bc(not x[1])
    if x[0] == 'a' and x[1] == 'not':
        return x[2]
    return mk('a', 'not', x)


def and_(*xs):
    out = []
    seen = set()
    for x in xs:
        if x[0] == 'b':
            if not x[1]:
                return FALSE
            continue
        ys = x[2:] if (x[0] == 'a' and x[1] == 'and') else (x,)
        for y in ys:
            if y[0] == 'b':
                if not y[1]:
                    return FALSE
                continue
            if y not in seen:
                seen.add(y)
                out.append(y)
    if not out:
        return TRUE
    if len(out) == 1:
        return out[0]
    return mk('a', 'and', *out)


def or_(*xs):
    out = []
    seen = set()
    for x in xs:
        if x[0] == 'b':
            if x[1]:
                return TRUE
            continue
        ys = x[2:] if (x[0] == 'a' and x[1] == 'or') else (x,)
        for y in ys:
            if y[0] == 'b':
                if y[1]:
                    return TRUE
                continue
            if y not in seen:
                seen.add(y)
                out.append(y)
    if not out:
        return FALSE
    if len(out) == 1:
        return out[0]
    return mk('a', 'or', *out)


def implies(x, y):
    if x[0] == 'b':
        return y if x[1] else TRUE
    if y[0] == 'b':
        return TRUE if y[1] else not_(x)
    if x == y:
        return TRUE
    return mk('a', '=>', x, y)


def iff(x, y):
    return eq(x, y)


def ite(c, x, y):
    if c[0] == 'b':
        return x if c[1] else y
    if x == y:
        return x
    if sort_of(x) == BOOL:
        if x == TRUE and y == FALSE:
            return c
        if x == FALSE and y == TRUE:
            return not_(c)
    return mk('a', 'ite', c, x, y)


def select(a, i):
    # read-over-write with syntactically decidable index comparison
    while a[0] == 'a' and a[1] == 'store':
        j = a[3]
        if j == i:
            return a[4]
        if j[0] == 'i' and i[0] == 'i':
            a = a[2]
            continue
        d = sub_const_diff(i, j)
        if d is not None and d != 0:
            a = a[2]
            continue
        break
    return mk('a', 'select', a, i)


def sub_const_diff(x, y):
    """if x - y is syntactically a constant, return it."""
    lx, cx = linear(x)
    ly, cy = linear(y)
    if lx == ly:
        return cx - cy
    return None


def store(a, i, v):
    return mk('a', 'store', a, i, v)


def forall(vars_, body, patterns=()):
    if body[0] == 'b':
        return body
    if not vars_:
        return body
    return mk('q', 'forall', tuple(vars_), body, tuple(patterns))


def exists(vars_, body):
    if body[0] == 'b':
        return body
    if not vars_:
        return body
    return mk('q', 'exists', tuple(vars_), body, ())


def tmin(x, y):
    return ite(le(x, y), x, y)


def tmax(x, y):
    return ite(le(x, y), y, x)


# ---------------------------------------------------------------- Go integer semantics

def go_div(x, y):
    """Go '/' truncates toward zero."""
    if x[0] == 'i' and y[0] == 'i' and y[1] != 0:
        a, b = x[1], y[1]
        q = abs(a) // abs(b)
        return I(q if (a >= 0) == (b > 0) else -q)
    if y[0] == 'i' and y[1] > 0:
        return ite(ge(x, ZERO), sdiv(x, y), neg(sdiv(neg(x), y)))
    ay = ite(ge(y, ZERO), y, neg(y))
    q = ite(ge(x, ZERO), sdiv(x, ay), neg(sdiv(neg(x), ay)))
    return ite(ge(y, ZERO), q, neg(q))


def go_mod(x, y):
    """Go '%': sign follows dividend."""
    if x[0] == 'i' and y[0] == 'i' and y[1] != 0:
        a, b = x[1], y[1]
        r = abs(a) % abs(b)
        return I(r if a >= 0 else -r)
    if y[0] == 'i' and y[1] > 0:
        return ite(ge(x, ZERO), smod(x, y), neg(smod(neg(x), y)))
    ay = ite(ge(y, ZERO), y, neg(y))
    return ite(ge(x, ZERO), smod(x, ay), neg(smod(neg(x), ay)))


# ---------------------------------------------------------------- traversal

def subterms(t, seen=None):
    """iterate over all subterms (post-order), each once."""
    if seen is None:
        seen = set()
    stack = [t]
    out = []
    while stack:
        x = stack.pop()
        if id(x) in seen or x in seen:
            continue
        seen.add(x)
        out.append(x)
        if x[0] == 'a':
            stack.extend(x[2:])
        elif x[0] == 'q':
            stack.append(x[3])
            for p in x[4]:
                stack.extend(p)
    return out


def free_vars(t, bound=frozenset(), acc=None, memo=None):
    if acc is None:
        acc = {}
    _fv(t, bound, acc, set())
    return acc


def _fv(t, bound, acc, seen):
    key = (t, bound)
    if key in seen:
        return
    seen.add(key)
    k = t[0]
    if k == 'v':
        if t[1] not in bound:
            acc[t[1]] = t[2]
    elif k == 'a':
        for x in t[2:]:
            _fv(x, bound, acc, seen)
    elif k == 'q':
        b2 = bound | frozenset(n for n, _ in t[2])
        _fv(t[3], b2, acc, seen)
        for p in t[4]:
            for x in p:
                _fv(x, b2, acc, seen)


def substitute(t, mapping, memo=None):
    """mapping: var name -> term (capture is avoided by construction: bound names are fresh)."""
    if memo is None:
        memo = {}
    return _subst(t, mapping, memo)


def _subst(t, m, memo):
    k = t[0]
    if k in 'ib':
        return t
    if k == 'v':
        return m.get(t[1], t)
    r = memo.get(t)
    if r is not None:
        return r
    if k == 'a':
        args = [_subst(x, m, memo) for x in t[2:]]
        r = rebuild(t[1], args)
    else:
        inner = {n: v for n, v in m.items() if n not in {nm for nm, _ in t[2]}}
        body = _subst(t[3], inner, {})
        pats = tuple(tuple(_subst(x, inner, {}) for x in p) for p in t[4])
        if body[0] == 'b':
            r = body
        else:
            r = mk('q', t[1], t[2], body, pats)
    memo[t] = r
    return r


def rebuild(op, args):
    if op == '+':
        return add(*args)
    if op == '-':
        return sub(*args)
    if op == '*':
        return mul(*args)
    if op == 'neg':
        return neg(*args)
    if op == 'div':
        return sdiv(*args)
    if op == 'mod':
        return smod(*args)
    if op == '<':
        return lt(*args)
    if op == '<=':
        return le(*args)
    if op == '=':
        return eq(*args)
    if op == 'not':
        return not_(*args)
    if op == 'and':
        return and_(*args)
    if op == 'or':
        return or_(*args)
    if op == '=>':
        return implies(*args)
    if op == 'ite':
        return ite(*args)
    if op == 'select':
        return select(*args)
    if op == 'store':
        return store(*args)
    return mk('a', op, *args)


# ---------------------------------------------------------------- linear normal form

def linear(t):
    """t == sum(coef*atom) + const ; returns (frozenset of (atom, coef)), const)."""
    acc = {}
    c = _lin(t, 1, acc)
    return frozenset((a, k) for a, k in acc.items() if k != 0), c


def _lin(t, k, acc):
    if t[0] == 'i':
        return k * t[1]
    if t[0] == 'a':
        op = t[1]
        if op == '+':
            return sum(_lin(x, k, acc) for x in t[2:])
        if op == '-':
            return _lin(t[2], k, acc) + _lin(t[3], -k, acc)
        if op == 'neg':
            return _lin(t[2], -k, acc)
        if op == '*':
            if t[2][0] == 'i':
                return _lin(t[3], k * t[2][1], acc)
            if t[3][0] == 'i':
                return _lin(t[2], k * t[3][1], acc)
    acc[t] = acc.get(t, 0) + k
    return 0


def from_linear(lin, c):
    parts = []
    for a, k in sorted(lin, key=lambda p: repr(p[0])):
        parts.append(mul(a, I(k)) if k != 1 else a)
    parts.append(I(c))
    return add(*parts)


def solve_for(var_name, lhs, rhs):
    """solve lhs == rhs for variable var_name when it occurs linearly with coef +-1 in lhs only.
    returns term or None."""
    lin, c = linear(lhs)
    coef = 0
    rest = []
    for a, k in lin:
        if a[0] == 'v' and a[1] == var_name:
            coef = k
        else:
            if var_name in free_vars(a):
                return None
            rest.append((a, k))
    if coef not in (1, -1):
        return None
    # coef*x + rest + c == rhs  =>  x == (rhs - rest - c) / coef
    other = from_linear(frozenset(rest), c)
    r = sub(rhs, other)
    return r if coef == 1 else neg(r)
