"""Contract files: tokenizer, expression parser, declaration parser (DESIGN App. B, pragmatic subset).

A contract file is a sequence of lines; in Go files every contract line starts with `//@`.
Declarations:

  func <Name>                      Name = Func | (*T).Method | (T).Method | Func$1 | Func$1$2 ...
    arith math|wrap
    ghost <name> <sort>            sort: int | bool | seq | seqseq   (ghost cells of this function)
    requires [@label] <expr>
    ensures  [@label] <expr>
    modifies <loc>, <loc>          loc: path | path[*] | path.* | ghostname | heap (everything)
    nonnil <name>, ...
    loop <n>:
      invariant [@label] <expr>
      decreases <expr>
      modifies <loc>, ...          (optional: restrict havoc of element arrays to these slices)
    param <path>:                  contract of a func-valued parameter / field / local; sub-clauses as for func
      args <n1>, <n2> ...          names of its arguments; results named r0, r1.. or `results a, b`
      requires/ensures/modifies
    inline <callee-short-name>     execute that static callee inline
    assert-call <callee>: <expr over its params>
    trusted <reason>               body not verified; contract is assumed (listed)
  iface <Type>.<Method>            like func; receiver is `self`
    args ..., results ...
  assume func <Name> / assume iface ...   (only in /verif/specs/deps.spec)
  spec func <name>(<p> <sort>, ...) <sort> { <expr> }        non-recursive: macro
  spec rec <name>(<p> <sort>, ...) <sort> decreases <expr> { <expr> }
  spec uf <name>(<sort>, ...) <sort>
  lemma <name>(<p> <sort>, ...): <expr>                       proved once, usable via `using`
  axiom <name>(<p> <sort>, ...): <expr>                       assumed (only in deps.spec)
  const <name> = <expr>
"""
import re

TOK = re.compile(r'''
   (?P<ws>\s+)
 | (?P<str>"(?:[^"\\]|\\.)*")
 | (?P<num>0x[0-9a-fA-F]+|\d+)
 | (?P<id>[A-Za-z_\u0080-￿][A-Za-z0-9_\u0080-￿$\#]*)
 | (?P<op><==>|==>|::|\+\+|&&|\|\||==|!=|<=|>=|<<|>>|&\^|[-+*/%<>!&|^().,\[\]:?{}=@;])
''', re.X)


class ParseError(Exception):
    pass


def tokenize(s):
    out = []
    i = 0
    while i < len(s):
        m = TOK.match(s, i)
        if not m:
            raise ParseError('bad character %r in %r' % (s[i], s))
        i = m.end()
        if m.lastgroup == 'ws':
            continue
        out.append((m.lastgroup, m.group()))
    out.append(('eof', ''))
    return out


BINPREC = {
    '||': 1, '&&': 2,
    '==': 3, '!=': 3, '<': 3, '<=': 3, '>': 3, '>=': 3,
    '+': 4, '-': 4, '|': 4, '^': 4,
    '*': 5, '/': 5, '%': 5, '<<': 5, '>>': 5, '&': 5, '&^': 5,
}


class P:
    def __init__(self, s):
        self.s = s
        self.toks = tokenize(s)
        self.i = 0

    def peek(self):
        return self.toks[self.i]

    def next(self):
        t = self.toks[self.i]
        self.i += 1
        return t

    def accept(self, v):
        if self.toks[self.i][1] == v and self.toks[self.i][0] != 'eof':
            self.i += 1
            return True
        return False

    def expect(self, v):
        if not self.accept(v):
            raise ParseError('expected %r at %r in %r' % (v, self.toks[self.i][1], self.s))

    def parse(self):
        e = self.expr()
        if self.peek()[0] != 'eof':
            raise ParseError('trailing %r in %r' % (self.peek()[1], self.s))
        return e

    def expr(self):
        return self.cond()

    def cond(self):
        c = self.iff()
        if self.accept('?'):
            a = self.cond()
            self.expect(':')
            b = self.cond()
            return ('cond', c, a, b)
        return c

    def iff(self):
        x = self.imp()
        while self.accept('<==>'):
            y = self.imp()
            x = ('bin', '<==>', x, y)
        return x

    def imp(self):
        x = self.binary(1)
        if self.accept('==>'):
            y = self.imp()
            return ('bin', '==>', x, y)
        return x

    def binary(self, prec):
        x = self.unary()
        while True:
            k, v = self.peek()
            if k == 'op' and v in BINPREC and BINPREC[v] >= prec:
                self.next()
                y = self.binary(BINPREC[v] + 1)
                x = ('bin', v, x, y)
            else:
                return x

    def unary(self):
        k, v = self.peek()
        if k == 'op' and v in ('!', '-', '*', '&', '^'):
            self.next()
            return ('un', v, self.unary())
        return self.postfix()

    def postfix(self):
        x = self.primary()
        while True:
            if self.accept('.'):
                k, v = self.next()
                if k != 'id':
                    raise ParseError('expected field name in %r' % self.s)
                x = ('sel', x, v)
            elif self.accept('['):
                if self.accept(':'):
                    hi = self.expr()
                    self.expect(']')
                    x = ('slice', x, None, hi)
                    continue
                i = self.expr()
                if self.accept(':'):
                    if self.peek()[1] == ']':
                        hi = None
                    else:
                        hi = self.expr()
                    self.expect(']')
                    x = ('slice', x, i, hi)
                else:
                    self.expect(']')
                    x = ('idx', x, i)
            elif self.peek()[1] == '(' and x[0] in ('name', 'sel'):
                self.next()
                args = []
                if not self.accept(')'):
                    while True:
                        args.append(self.expr())
                        if self.accept(')'):
                            break
                        self.expect(',')
                if x[0] == 'name':
                    x = ('call', x[1], args)
                else:
                    x = ('mcall', x[1], x[2], args)
            else:
                return x

    def primary(self):
        k, v = self.next()
        if k == 'num':
            return ('num', int(v, 0))
        if k == 'str':
            return ('str', v[1:-1])
        if k == 'id':
            if v in ('forall', 'exists'):
                vs = []
                while True:
                    kk, n = self.next()
                    if kk != 'id':
                        raise ParseError('quantifier variable expected in %r' % self.s)
                    kk, t = self.peek()
                    ty = 'int'
                    if kk == 'id':
                        self.next()
                        ty = t
                    vs.append((n, ty))
                    if self.accept('::'):
                        break
                    self.expect(',')
                body = self.expr()
                return ('q', v, vs, body)
            if v == 'true':
                return ('bool', True)
            if v == 'false':
                return ('bool', False)
            if v == 'nil':
                return ('nil',)
            return ('name', v)
        if v == '(':
            e = self.expr()
            self.expect(')')
            return e
        raise ParseError('unexpected %r in %r' % (v, self.s))


def parse_expr(s):
    return P(s).parse()


# ---------------------------------------------------------------- declarations

class Clause:
    def __init__(self, kind, text, label=None, line=None, src=None):
        self.kind = kind
        self.text = text
        self.label = label
        self.line = line
        self.src = src
        self.expr = None
        self.used = 0

    def parse(self):
        if self.expr is None:
            self.expr = parse_expr(self.text)
        return self.expr

    def slug(self):
        if self.label:
            return self.label
        s = re.sub(r'[^A-Za-z0-9]+', '-', self.text).strip('-')
        return s[:40]


class LoopSpec:
    def __init__(self, n):
        self.n = n
        self.invariants = []
        self.decreases = None
        self.modifies = None
        self.flags = set()
        self.exit_ensures = []      # checked on every edge leaving the loop (normal end and break), not on return


class FuncSpec:
    def __init__(self, name, kind='func', assumed=False, src=None):
        self.name = name
        self.kind = kind            # func | iface | param
        self.assumed = assumed
        self.src = src
        self.arith = 'math'
        self.requires = []
        self.ensures = []
        self.modifies = None        # None = unspecified (pure for contract calls means nothing modified)
        self.loops = {}
        self.params = {}            # path -> FuncSpec (kind param)
        self.calls = {}             # callee name -> FuncSpec: in-context (assumed) contract of an external callee
        self.recvs = {}             # channel path -> FuncSpec: ASSUMED facts about every value received (justified by the senders' `send` contracts)
        self.sends = {}             # channel path -> FuncSpec (contract of a send on that channel)
        self.closes = {}            # channel path -> FuncSpec (contract of close(ch))
        self.ghost = []             # (name, sort)
        self.inline = set()
        self.nonnil = []
        self.args = None
        self.results = None
        self.trusted = None
        self.assert_calls = []      # (callee, Clause)
        self.reports = []
        self.using = []             # lemma instances: Clause text "lemma(args)"
        self.flags = set()
        self.asserts_at = []
        self.sets_at = []           # (anchor, ghost, index expr or None, value expr, Clause)
        self.owns = []
        self.forks = []

    def all_clauses(self):
        for c in self.requires + self.ensures:
            yield c
        for _, c in self.asserts_at:
            yield c
        for l in self.loops.values():
            for c in l.invariants:
                yield c
            for c in l.exit_ensures:
                yield c
            if l.decreases:
                yield l.decreases


class SpecFunc:
    def __init__(self, name, params, sort, body, rec=False, decreases=None, uf=False):
        self.name = name
        self.params = params
        self.sort = sort
        self.body = body
        self.rec = rec
        self.decreases = decreases
        self.uf = uf
        self.expr = None

    def parse(self):
        if self.expr is None and self.body is not None:
            self.expr = parse_expr(self.body)
        return self.expr


class Lemma:
    def __init__(self, name, params, text, axiom=False, src=None):
        self.name = name
        self.params = params
        self.text = text
        self.axiom = axiom
        self.src = src
        self.expr = None
        self.induction = None

    def parse(self):
        if self.expr is None:
            self.expr = parse_expr(self.text)
        return self.expr


class Specs:
    def __init__(self):
        self.funcs = {}       # (pkgpath, shortname) -> FuncSpec
        self.ifaces = {}      # 'Type.Method' -> FuncSpec
        self.specfuncs = {}
        self.lemmas = {}
        self.consts = {}
        self.pure = set()
        self.errors = []


def split_top(s):
    """split on commas that are not inside parentheses / brackets"""
    out, depth, cur = [], 0, ''
    for ch in s:
        if ch in '([':
            depth += 1
        elif ch in ')]':
            depth -= 1
        if ch == ',' and depth == 0:
            out.append(cur)
            cur = ''
        else:
            cur += ch
    out.append(cur)
    return [x.strip() for x in out if x.strip()]


def parse_params(s):
    out = []
    s = s.strip()
    if not s:
        return out
    for part in s.split(','):
        bits = part.split()
        if len(bits) == 1:
            out.append((bits[0], 'int'))
        else:
            out.append((bits[0], bits[1]))
    return out


def logical_lines(path, go_file):
    """yield (lineno, indent, text) with //@ stripped; continuation lines (deeper indent, not a keyword) joined."""
    raw = []
    with open(path, encoding='utf-8') as f:
        for ln, line in enumerate(f, 1):
            line = line.rstrip('\n')
            if go_file:
                st = line.lstrip()
                if not st.startswith('//@'):
                    continue
                line = st[3:]
            # strip trailing comments introduced by ' // '
            ci = line.find(' // ')
            if ci >= 0:
                line = line[:ci]
            if line.strip().startswith('//') or line.strip().startswith('#'):
                continue
            if not line.strip():
                continue
            indent = len(line) - len(line.lstrip())
            raw.append((ln, indent, line.strip()))
    return raw


KEYWORDS = ('func', 'iface', 'assume', 'spec', 'lemma', 'axiom', 'const', 'arith', 'ghost', 'requires', 'ensures',
            'modifies', 'nonnil', 'loop', 'invariant', 'decreases', 'param', 'inline', 'assert-call', 'trusted',
            'args', 'results', 'report', 'using', 'flag', 'pure', 'import', 'assert-at', 'set-at', 'set-after', 'exit-ensures', 'owns', 'fork',
            'deterministic', 'guarded', 'send', 'closes', 'call', 'alias', 'recv')


def join_continuations(raw):
    out = []
    for ln, indent, text in raw:
        first = text.split(None, 1)[0].rstrip(':')
        if first in KEYWORDS or not out:
            out.append([ln, indent, text])
        else:
            out[-1][2] += ' ' + text
    return out


def split_label(text):
    text = text.strip()
    m = re.match(r'@([A-Za-z0-9_\-.]+)\s+(.*)$', text, re.S)
    if m:
        return m.group(1), m.group(2)
    return None, text


def parse_file(path, specs, pkgpath=None, go_file=True, allow_assume=False):
    lines = join_continuations(logical_lines(path, go_file))
    cur = None          # current FuncSpec
    cur_top = None
    cur_loop = None
    sub_indent = 0
    src = path
    for ln, indent, text in lines:
        kw, _, rest = text.partition(' ')
        kw = kw.rstrip(':') if kw.endswith(':') and kw[:-1] in KEYWORDS else kw
        rest = rest.strip()
        where = '%s:%d' % (src, ln)
        try:
            if kw == 'import':
                continue
            if kw == 'assume':
                if not allow_assume:
                    specs.errors.append('%s: `assume` is only allowed in /verif/specs/deps.spec' % where)
                    continue
                kw2, _, rest2 = rest.partition(' ')
                rest2 = rest2.strip()
                if kw2 == 'func':
                    pk, _, nm = rest2.rpartition('::')
                    cur = FuncSpec(nm.strip(), 'func', assumed=True, src=where)
                    specs.funcs[(pk.strip(), nm.strip())] = cur
                elif kw2 == 'iface':
                    cur = FuncSpec(rest2, 'iface', assumed=True, src=where)
                    specs.ifaces[rest2] = cur
                else:
                    raise ParseError('assume what?')
                cur_top = cur
                cur_loop = None
                continue
            if kw == 'func':
                cur = FuncSpec(rest, 'func', src=where)
                specs.funcs[(pkgpath, rest)] = cur
                cur_top = cur
                cur_loop = None
                continue
            if kw == 'iface':
                cur = FuncSpec(rest, 'iface', src=where)
                specs.ifaces[rest] = cur
                cur_top = cur
                cur_loop = None
                continue
            if kw == 'pure':
                for n in rest.split(','):
                    specs.pure.add(n.strip())
                continue
            if kw == 'const':
                n, _, e = rest.partition('=')
                specs.consts[n.strip()] = parse_expr(e.strip())
                continue
            if kw == 'spec':
                kind, _, r2 = rest.partition(' ')
                m = re.match(r'([^\s(]+)\s*\(([^)]*)\)\s*(\w+)\s*(?:decreases\s+(.*?))?\s*(?:\{(.*)\})?\s*$', r2.strip(), re.S)
                if not m:
                    raise ParseError('bad spec declaration: ' + text)
                name, ps, sort, dec, body = m.groups()
                if kind == 'uf':
                    sf = SpecFunc(name, [('a%d' % i, s.strip()) for i, s in enumerate(ps.split(',')) if s.strip()], sort, None, uf=True)
                else:
                    sf = SpecFunc(name, parse_params(ps), sort, body.strip() if body else None, rec=(kind == 'rec'), decreases=dec)
                specs.specfuncs[name] = sf
                continue
            if kw in ('lemma', 'axiom'):
                m = re.match(r'([^\s(]+)\s*\(([^)]*)\)\s*:\s*(.*)$', rest, re.S)
                if not m:
                    raise ParseError('bad lemma: ' + text)
                name, ps, body = m.groups()
                if kw == 'axiom' and not allow_assume:
                    specs.errors.append('%s: `axiom` is only allowed in /verif/specs/deps.spec' % where)
                    continue
                ind = None
                mi = re.search(r'\s+by\s+induction\s+(\w+)\s*$', body)
                if mi:
                    ind = mi.group(1)
                    body = body[:mi.start()]
                lm = Lemma(name, parse_params(ps), body.strip(), axiom=(kw == 'axiom'), src=where)
                lm.induction = ind
                specs.lemmas[name] = lm
                continue
            if cur is None:
                raise ParseError('clause outside of a declaration: ' + text)
            if cur is not cur_top and indent <= sub_indent:
                cur = cur_top          # a clause indented like the `param` line belongs to the function again
            if kw == 'arith':
                cur_top.arith = rest
            elif kw == 'ghost':
                n, s = rest.split()
                cur_top.ghost.append((n, s))
            elif kw == 'requires':
                lab, e = split_label(rest)
                cur.requires.append(Clause('requires', e, lab, ln, where))
                cur_loop = None if cur is cur_top else cur_loop
            elif kw == 'ensures':
                lab, e = split_label(rest)
                cur.ensures.append(Clause('ensures', e, lab, ln, where))
            elif kw == 'modifies':
                locs = split_top(rest)
                if cur_loop is not None and cur is cur_top:
                    cur_loop.modifies = (cur_loop.modifies or []) + locs
                else:
                    cur.modifies = (cur.modifies or []) + locs
            elif kw == 'nonnil':
                cur.nonnil.extend(x.strip() for x in rest.split(','))
            elif kw == 'loop':
                n = int(rest.rstrip(':'))
                cur = cur_top
                cur_loop = cur_top.loops.setdefault(n, LoopSpec(n))
                loop_indent = indent
            elif kw == 'invariant':
                if cur_loop is None:
                    raise ParseError('invariant outside loop')
                lab, e = split_label(rest)
                cur_loop.invariants.append(Clause('invariant', e, lab, ln, where))
            elif kw == 'decreases':
                if cur_loop is not None:
                    cur_loop.decreases = Clause('decreases', rest, None, ln, where)
                else:
                    cur.decreases = Clause('decreases', rest, None, ln, where)
            elif kw == 'param':
                path_ = rest.rstrip(':').strip()
                ps = FuncSpec(path_, 'param', src=where)
                cur_top.params[path_] = ps
                cur = ps
                cur_loop = None
                sub_indent = indent
            elif kw == 'call':
                path_ = rest.rstrip(':').strip()
                ps = FuncSpec(path_, 'param', src=where)
                ps.in_context = True
                cur_top.calls[path_] = ps
                cur = ps
                cur_loop = None
                sub_indent = indent
            elif kw == 'recv':
                path_ = rest.rstrip(':').strip()
                ps = FuncSpec('recv ' + path_, 'param', src=where)
                cur_top.recvs[path_] = ps
                cur = ps
                cur_loop = None
                sub_indent = indent
            elif kw == 'send' or kw == 'closes':
                path_ = rest.rstrip(':').strip()
                ps = FuncSpec(('send ' if kw == 'send' else 'close ') + path_, 'param', src=where)
                (cur_top.sends if kw == 'send' else cur_top.closes)[path_] = ps
                cur = ps
                cur_loop = None
                sub_indent = indent
            elif kw == 'alias':
                cur.alias = rest.strip()
            elif kw == 'args':
                cur.args = [x.strip() for x in rest.split(',') if x.strip()]
            elif kw == 'results':
                cur.results = [x.strip() for x in rest.split(',') if x.strip()]
            elif kw == 'inline':
                cur_top.inline.update(x.strip() for x in rest.split(','))
            elif kw == 'trusted':
                cur_top.trusted = rest
            elif kw == 'assert-call':
                callee, _, e = rest.partition(':')
                lab, e = split_label(e)
                cur_top.assert_calls.append((callee.strip(), Clause('assert-call', e, lab, ln, where)))
            elif kw == 'assert-at':
                # assert-at "source text of the anchored line": [@label] expr
                ma = re.match(r'^"((?:[^"\\]|\\.)*)"\s*:\s*(.*)$', rest, re.S)
                if not ma:
                    raise ParseError('assert-at needs a quoted anchor: ' + text)
                lab, e = split_label(ma.group(2))
                cur_top.asserts_at.append((ma.group(1).replace('\\"', '"'), Clause('assert', e, lab, ln, where)))
            elif kw == 'report':
                lab, e = split_label(rest)
                cur_top.reports.append(Clause('report', e, lab, ln, where))
            elif kw == 'using':
                cur_top.using.append(Clause('using', rest, None, ln, where))
            elif kw == 'flag' or kw == 'deterministic':
                if cur_loop is not None and cur is cur_top and kw == 'flag':
                    cur_loop.flags.update(rest.split())
                else:
                    (cur if cur is not cur_top else cur_top).flags.update((rest or kw).split())
            elif kw == 'exit-ensures':
                if cur_loop is None:
                    raise ParseError('exit-ensures outside of a loop block: ' + text)
                lab, e = split_label(rest)
                cur_loop.exit_ensures.append(Clause('exit-ensures', e, lab, ln, where))
            elif kw in ('set-at', 'set-after'):
                # set-at "source text of the anchored line": ghost := expr   |   ghost[index] := expr
                ma = re.match(r'^"((?:[^"\\]|\\.)*)"\s*:\s*(\w+)\s*(?:\[(.*?)\])?\s*:=\s*(.*)$', rest, re.S)
                if not ma:
                    raise ParseError('set-at needs a quoted anchor and `ghost := expr`: ' + text)
                cur_top.sets_at.append((('\x00after\x00' if kw == 'set-after' else '') + ma.group(1).replace('\\"', '"'), ma.group(2), ma.group(3), ma.group(4), Clause('set', ma.group(4), None, ln, where)))
            elif kw == 'owns':
                cur_top.owns.append(rest)
            elif kw == 'fork':
                cur_top.forks.append(rest)
            else:
                raise ParseError('unknown clause: ' + text)
        except ParseError as e:
            specs.errors.append('%s: %s' % (where, e))
        except Exception as e:  # malformed line
            specs.errors.append('%s: %s: %r' % (where, type(e).__name__, e))
    return specs
