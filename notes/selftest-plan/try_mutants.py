import os, shutil, subprocess, sys, json
from concurrent.futures import ThreadPoolExecutor
MUTS = {
 "M01": ("wsync/algo.go", "lastIndex := op.BlockIndex + (op.BlockSpan - 1)", "lastIndex := op.BlockIndex + op.BlockSpan"),
 "M02": ("wsync/algo.go", "if blockSize*(lastIndex+1) > fileSize {", "if blockSize*(lastIndex+1) >= fileSize {"),
 "M04": ("wsync/algo.go", "prevOp.Type == OpBlockRange && prevOp.FileIndex == op.FileIndex && prevOp.BlockIndex+prevOp.BlockSpan == op.BlockIndex", "prevOp.Type == OpBlockRange && prevOp.BlockIndex+prevOp.BlockSpan == op.BlockIndex"),
 "M08": ("wsync/hashes.go", "\t\t// full blocks have 0 shortSize\n\t\tif block.ShortSize == shortSize {", "\t\t// full blocks have 0 shortSize\n\t\tif true {"),
 "M11": ("wsync/algo.go", "data.head-data.tail >= MaxDataOp)", "data.head-data.tail > MaxDataOp+70000)"),
 "M12": ("wsync/algo.go", "β2 = (β2 - uint32(sum.head-sum.tail)*αPop + β1) % _M", "β2 = (β2 - uint32(sum.head-sum.tail-1)*αPop + β1) % _M"),
 "M15": ("pwr/diff.go", "dctx.ReusedBytes += BlockSize*(op.BlockSpan-1) + tailSize", "dctx.ReusedBytes += BlockSize * op.BlockSpan"),
 "M16": ("pwr/patcher/patcher_rsync.go", "\tif targetFile.Size != outputFile.Size {\n\t\treturn false\n\t}\n", "\t_ = targetFile\n"),
 "M19": ("pwr/diff.go", "if BlockSize*(blockIndex+1) > fileSize {", "if BlockSize*(blockIndex+1) >= fileSize {"),
 "M22": ("wsync/hashes.go", "if blockIndex == 0 {\n\t\terr := hashBlock([]byte{})", "if blockIndex == 0 && false {\n\t\terr := hashBlock([]byte{})"),
 "M26": ("pwr/drip/dripwriter.go", "if dw.offset == len(dw.Buffer) {", "if dw.offset >= len(dw.Buffer)-1 {"),
 "M27": ("pwr/drip/dripwriter.go", "buf := dw.Buffer[:dw.offset]\n\n\t\tif dw.Validate != nil {\n\t\t\terr = dw.Validate(buf)", "buf := dw.Buffer[:dw.offset]\n\n\t\tif dw.Validate != nil {\n\t\t\terr = dw.Validate(dw.Buffer)"),
 "M29": ("pwr/blockvalidator.go", "\treturn Wound{\n\t\tKind:  WoundKind_CLOSED_FILE,\n\t\tIndex: fileIndex,\n\t\tStart: start,\n\t\tEnd:   start + size,", "\treturn Wound{\n\t\tKind:  WoundKind_CLOSED_FILE,\n\t\tIndex: fileIndex,\n\t\tStart: start,\n\t\tEnd:   start + BlockSize,"),
 "M30": ("pwr/validator.go", "if writtenBytes != file.Size {", "if writtenBytes != file.Size && false {"),
 "M31": ("pwr/wounds.go", "\t\tif lastWound != nil {\n\t\t\toutWounds <- lastWound\n\t\t}\n\n\t\tclose(outWounds)", "\t\tclose(outWounds)"),
 "M35": ("pwr/safekeeper.go", "blockIndex := skr.offset / BlockSize", "blockIndex := skr.offset/BlockSize + 1"),
 "M44": ("pwr/patcher/patcher.go", "\t\t\tif sh.FileIndex != c.FileIndex {\n\t\t\t\treturn errors.Errorf(\"corrupted patch or internal error: expected file %d, got file %d\", c.FileIndex, sh.FileIndex)\n\t\t\t}\n", ""),
 "M45": ("pwr/patcher/patcher.go", "\t\t\tsp.touchedFiles++\n\t\t}\n", "\t\t}\n\t\tsp.touchedFiles++\n"),
 "M47": ("pwr/overlay/overlay_writer.go", "\t\t\t\t}\n\t\t\t\tsame = 0\n\t\t\t}\n\t\t}\n\n\t\ti := rbuflen", "\t\t\t\t} else {\n\t\t\t\t\tsame = 0\n\t\t\t\t}\n\t\t\t}\n\t\t}\n\n\t\ti := rbuflen"),
 "M49": ("pwr/overlay/overlay_writer.go", "if rbuflen < len(buf) {", "if rbuflen < len(buf) && rbuflen > 0 {"),
 "M51": ("pwr/bowl/bowl_overlay.go", "\t\terr = w.Truncate(finalSize)\n\t\tif err != nil {\n\t\t\treturn errors.WithStack(err)\n\t\t}\n", "\t\t_ = finalSize\n"),
 "M52": ("bsdiff/diff.go", "bsdc.Seek = int64(match.addOldStart - (prevMatch.addOldStart + prevMatch.addLength))", "bsdc.Seek = int64(match.addOldStart - prevMatch.addOldStart)"),
 "M55": ("bsdiff/adder_reader.go", "p[i] += b[off+i]", "p[i] += b[i]"),
 "M58": ("wire/read_context.go", "\tn, err := cr.r.source.Read(buf)\n\tcr.r.offset += int64(n)", "\tn, err := cr.r.source.Read(buf)\n\tif err == nil {\n\t\tcr.r.offset += int64(n)\n\t}"),
 "M59": ("wire/read_context.go", "Offset:           r.offset,", "Offset:           r.sourceCheckpoint.Offset,"),
 "M61": ("pwr/bowl/bowl_fresh.go", "f, err := screw.OpenFile(few.path, os.O_CREATE|os.O_WRONLY,", "f, err := screw.OpenFile(few.path, os.O_CREATE|os.O_WRONLY|os.O_TRUNC,"),
 "M64": ("pwr/bowl/bowl_overlay.go", "\tgob.Register(&OverlayBowlCheckpoint{})\n", ""),
 "M68": ("pwr/bowl/bowl_overlay.go", "\tfor _, i := range b.overlayFiles {\n\t\tif i == sourceFileIndex {\n\t\t\t// oh cool it's already marked\n\t\t\treturn\n\t\t}\n\t}\n", ""),
 "M69": ("ctxcopy/ctxcopy.go", "nn, err := dst.Write(buf[:n])", "nn, err := dst.Write(buf)"),
 "M73": ("pwr/diff.go", "signContext := mksync()", "signContext := diffContext"),
 "M38": ("pwr/safekeeper.go", "\t\tsk.sigError = err\n\t\treturn nil, err\n\t}\n\n\t// this seems bad", "\t\treturn nil, err\n\t}\n\n\t// this seems bad"),
 "M70": ("pwr/archive_healer.go", "\t\t\tfiles[wound.Index] = true\n", ""),
}
def run(mid):
    path, old, new = MUTS[mid]
    d = f"/tmp/mut/{mid}"
    if os.path.exists(d): shutil.rmtree(d)
    shutil.copytree("/repo", d, ignore=shutil.ignore_patterns(".git"))
    p = os.path.join(d, path)
    s = open(p).read()
    if old not in s:
        shutil.rmtree(d); return mid, "PATTERN-NOT-FOUND", ""
    open(p, "w").write(s.replace(old, new, 1))
    env = dict(os.environ, GOFLAGS="-mod=mod", GOPROXY="off")
    b = subprocess.run(["go", "build", "./..."], cwd=d, env=env, capture_output=True, text=True)
    if b.returncode != 0:
        shutil.rmtree(d); return mid, "BUILD-FAIL", b.stderr[-300:]
    t = subprocess.run(["go", "test", "-vet=off", "-count=1", "./..."], cwd=d, env=env, capture_output=True, text=True, timeout=900)
    fails = [l for l in t.stdout.splitlines() if l.startswith("FAIL") or l.startswith("--- FAIL")]
    shutil.rmtree(d)
    return mid, ("SURVIVES" if t.returncode == 0 else "KILLED"), " ".join(fails[:4])
ids = sys.argv[1:] or list(MUTS)
with ThreadPoolExecutor(max_workers=6) as ex:
    for mid, verdict, info in ex.map(run, ids):
        print(f"{mid:4s} {verdict:18s} {info}", flush=True)
