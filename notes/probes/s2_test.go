package probe

import (
	"context"
	"os"
	"path/filepath"
	"testing"

	"github.com/itchio/headway/state"
	"github.com/itchio/lake/pools/fspool"
	"github.com/itchio/lake/tlc"
	"github.com/itchio/savior/seeksource"
	"github.com/itchio/wharf/pwr"
	"github.com/itchio/wharf/wire"
)

func mkBuild(t *testing.T, dir string, files map[string][]byte) (*tlc.Container, *pwr.SignatureInfo) {
	for p, c := range files {
		full := filepath.Join(dir, p)
		os.MkdirAll(filepath.Dir(full), 0o755)
		if err := os.WriteFile(full, c, 0o644); err != nil {
			t.Fatal(err)
		}
	}
	c, err := tlc.WalkAny(dir, tlc.WalkOpts{})
	if err != nil {
		t.Fatal(err)
	}
	h, err := pwr.ComputeSignature(context.Background(), c, fspool.New(c, dir), &state.Consumer{})
	if err != nil {
		t.Fatal(err)
	}
	return c, &pwr.SignatureInfo{Container: c, Hashes: h}
}

func readWounds(t *testing.T, path string) []*pwr.Wound {
	b, err := os.ReadFile(path)
	if err != nil {
		t.Logf("no wounds file: %v", err)
		return nil
	}
	rc := wire.NewReadContext(seeksource.FromBytes(b))
	if _, err := seeksource.FromBytes(b).Resume(nil); err != nil {
		t.Fatal(err)
	}
	src := seeksource.FromBytes(b)
	src.Resume(nil)
	rc = wire.NewReadContext(src)
	if err := rc.ExpectMagic(pwr.WoundsMagic); err != nil {
		t.Fatal(err)
	}
	if err := rc.ReadMessage(&pwr.WoundsHeader{}); err != nil {
		t.Fatal(err)
	}
	if err := rc.ReadMessage(&tlc.Container{}); err != nil {
		t.Fatal(err)
	}
	var ws []*pwr.Wound
	for {
		w := &pwr.Wound{}
		if err := rc.ReadMessage(w); err != nil {
			break
		}
		ws = append(ws, w)
	}
	return ws
}

func TestS2_LongerFileWound(t *testing.T) {
	dir := t.TempDir()
	build := filepath.Join(dir, "b")
	_, sig := mkBuild(t, build, map[string][]byte{"a": []byte("0123456789")})
	// extend the file
	os.WriteFile(filepath.Join(build, "a"), []byte("0123456789ABCDEFGHIJ"), 0o644)
	wp := filepath.Join(dir, "wounds.pww")
	vctx := &pwr.ValidatorContext{WoundsPath: wp, Consumer: &state.Consumer{}}
	err := vctx.Validate(context.Background(), build, sig)
	t.Logf("validate err=%v has=%v total=%d", err, vctx.WoundsConsumer.HasWounds(), vctx.WoundsConsumer.TotalCorrupted())
	for _, w := range readWounds(t, wp) {
		t.Logf("wound kind=%v index=%d start=%d end=%d  wellformed=%v", w.Kind, w.Index, w.Start, w.End, 0 <= w.Start && w.Start <= w.End)
	}
}

func TestS3_CancelledFailFast(t *testing.T) {
	dir := t.TempDir()
	build := filepath.Join(dir, "b")
	_, sig := mkBuild(t, build, map[string][]byte{"a": []byte("0123456789"), "b": []byte("hello")})
	os.WriteFile(filepath.Join(build, "a"), []byte("0123456780"), 0o644)
	if err := pwr.AssertValid(build, sig); err == nil {
		t.Fatal("expected invalid")
	}
	nils := 0
	for i := 0; i < 200; i++ {
		ctx, cancel := context.WithCancel(context.Background())
		cancel()
		vctx := &pwr.ValidatorContext{FailFast: true, Consumer: &state.Consumer{}}
		err := vctx.Validate(ctx, build, sig)
		if err == nil {
			nils++
		}
	}
	t.Logf("cancelled-before-start FailFast validation of a damaged dir returned nil %d/200 times", nils)
}
