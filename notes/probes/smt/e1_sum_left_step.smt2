; lemma sum_left:  lo < hi ==> sumB(c,lo,hi) == c[lo] + sumB(c,lo+1,hi)   by induction on hi
; definition (right-recursive): sumB(c,lo,hi) = (hi <= lo) ? 0 : sumB(c,lo,hi-1) + c[hi-1]
(set-logic ALL)
(declare-fun sumB ((Array Int Int) Int Int) Int)
(assert (forall ((c (Array Int Int)) (lo Int) (hi Int)) (! (= (sumB c lo hi) (ite (<= hi lo) 0 (+ (sumB c lo (- hi 1)) (select c (- hi 1))))) :pattern ((sumB c lo hi)))))
(declare-const c (Array Int Int)) (declare-const lo Int) (declare-const hi Int)
; induction hypothesis at hi, goal at hi+1
(assert (=> (< lo hi) (= (sumB c lo hi) (+ (select c lo) (sumB c (+ lo 1) hi)))))
(assert (< lo (+ hi 1)))
(assert (not (= (sumB c lo (+ hi 1)) (+ (select c lo) (sumB c (+ lo 1) (+ hi 1))))))
(check-sat)
