; overlay.write: commit(i) — precondition of skip(same) after fresh(buf[lastOp:i-same]).
; run invariant over window indices ; rbuf mirrors old at ro0+j ; buf mirrors new at ro0+j ; readOffset == ro0 + lastOp before, ro0 + (i-same) after fresh
(set-logic ALL)
(declare-const oldA (Array Int Int)) (declare-const newA (Array Int Int)) (declare-const rbuf (Array Int Int)) (declare-const buf (Array Int Int))
(declare-const ro0 Int) (declare-const i Int) (declare-const same Int) (declare-const lastOp Int) (declare-const rbuflen Int) (declare-const oldLen Int)
(assert (and (>= ro0 0) (<= 0 lastOp) (<= lastOp (- i same)) (<= i rbuflen) (>= same 0) (<= (+ ro0 rbuflen) oldLen)))
(assert (forall ((j Int)) (! (=> (and (<= 0 j) (< j rbuflen)) (= (select rbuf j) (select oldA (+ ro0 j)))) :pattern ((select rbuf j)))))
(assert (forall ((j Int)) (! (= (select buf j) (select newA (+ ro0 j))) :pattern ((select buf j)))))
(assert (forall ((j Int)) (! (=> (and (<= (- i same) j) (< j i)) (= (select rbuf j) (select buf j))) :pattern ((select rbuf j)))))
; goal: forall t in [0,same): old[readOffset + t] == new[readOffset + t]  with readOffset = ro0 + i - same ; and readOffset + same <= oldLen
(declare-const t Int)
(assert (and (<= 0 t) (< t same)))
(assert (not (and (= (select oldA (+ ro0 (- i same) t)) (select newA (+ ro0 (- i same) t))) (<= (+ ro0 i) oldLen))))
; trigger seeding: mention the arrays of the hypotheses at the skolem index j* = i-same+t
(declare-const seed1 Int) (assert (= seed1 (select rbuf (+ (- i same) t))))
(declare-const seed2 Int) (assert (= seed2 (select buf (+ (- i same) t))))
(check-sat)
