(set-logic ALL)
(declare-fun sumB ((Array Int Int) Int Int) Int)
(declare-fun wsumB ((Array Int Int) Int Int) Int)
(assert (forall ((c (Array Int Int)) (lo Int) (hi Int)) (! (= (sumB c lo hi) (ite (<= hi lo) 0 (+ (sumB c lo (- hi 1)) (select c (- hi 1))))) :pattern ((sumB c lo hi)))))
(assert (forall ((c (Array Int Int)) (lo Int) (hi Int)) (! (= (wsumB c lo hi) (ite (<= hi lo) 0 (+ (wsumB c lo (- hi 1)) (sumB c lo hi)))) :pattern ((wsumB c lo hi)))))
(declare-const c (Array Int Int)) (declare-const lo Int)
; base: hi = lo+1
(assert (not (= (wsumB c (+ lo 1) (+ lo 2)) (+ (- (wsumB c lo (+ lo 1)) (* 1 (select c lo))) (sumB c (+ lo 1) (+ lo 2))))))
(check-sat)
