; Rolling update of ComputeDiff in uint32 wrap arithmetic vs spec, source coordinates.
; Given: b1 == S(w-1, w-1+bs) mod M, b2 == W(w-1, w-1+bs) mod M, v_pop == src[w-1], v_push == src[w-1+bs]
; Code:  b1' = ((b1 - v_pop + v_push) mod 2^32) mod M ; b2' = ((b2 - (L*v_pop mod 2^32) + b1') mod 2^32) mod M, L = bs
; Goal:  b1' == S(w, w+bs) mod M  and  b2' == W(w, w+bs) mod M
; with lemmas (instantiated by the generator):  S(w-1,w+bs) = S(w-1,w-1+bs) + src[w-1+bs]          (unfold)
;                                               S(w-1,w+bs) = src[w-1] + S(w,w+bs)                  (sum_left)
;                                               W(w,w+bs)   = W(w-1,w-1+bs) - bs*src[w-1] + S(w,w+bs) (wsum_shift)
(set-logic ALL)
(define-fun M () Int 65536)
(define-fun T32 () Int 4294967296)
(declare-const Sold Int) (declare-const Wold Int) (declare-const Snew Int) (declare-const Wnew Int) (declare-const Smid Int)
(declare-const v_pop Int) (declare-const v_push Int) (declare-const bs Int) (declare-const b1 Int) (declare-const b2 Int)
(declare-const P Int) ; named atom for bs*v_pop
(assert (and (<= 0 v_pop) (<= v_pop 255) (<= 0 v_push) (<= v_push 255) (< 0 bs) (< bs 2147483648)))
(assert (= P (* bs v_pop)))
(assert (and (<= 0 P) (<= P (* 255 bs))))      ; supplied by the generator for a named product with a byte
(assert (= Smid (+ Sold v_push)))
(assert (= Smid (+ v_pop Snew)))
(assert (= Wnew (+ (- Wold P) Snew)))
(assert (and (<= 0 b1) (< b1 M) (<= 0 b2) (< b2 M)))
(assert (= b1 (mod Sold M)))
(assert (= b2 (mod Wold M)))
(define-fun b1n () Int (mod (mod (+ (- b1 v_pop) v_push) T32) M))
(define-fun b2n () Int (mod (mod (+ (- b2 (mod P T32)) b1n) T32) M))
(assert (not (and (= b1n (mod Snew M)) (= b2n (mod Wnew M)))))
(check-sat)
