; wsumB(c,lo,hi) = (hi<=lo) ? 0 : wsumB(c,lo,hi-1) + sumB(c,lo,hi)
; lemma wsum_shift: lo < hi ==> wsumB(c,lo+1,hi+1) == wsumB(c,lo,hi) - (hi-lo)*c[lo] + sumB(c,lo+1,hi+1)   by induction on hi
(set-logic ALL)
(declare-fun sumB ((Array Int Int) Int Int) Int)
(declare-fun wsumB ((Array Int Int) Int Int) Int)
(assert (forall ((c (Array Int Int)) (lo Int) (hi Int)) (! (= (sumB c lo hi) (ite (<= hi lo) 0 (+ (sumB c lo (- hi 1)) (select c (- hi 1))))) :pattern ((sumB c lo hi)))))
(assert (forall ((c (Array Int Int)) (lo Int) (hi Int)) (! (= (wsumB c lo hi) (ite (<= hi lo) 0 (+ (wsumB c lo (- hi 1)) (sumB c lo hi)))) :pattern ((wsumB c lo hi)))))
(declare-const c (Array Int Int)) (declare-const lo Int) (declare-const hi Int)
; already proved lemma sum_left, instantiated where needed
(assert (forall ((lo Int) (hi Int)) (! (=> (< lo hi) (= (sumB c lo hi) (+ (select c lo) (sumB c (+ lo 1) hi)))) :pattern ((sumB c lo hi)))))
(assert (< lo hi))
; IH at hi (needs lo < hi), goal at hi+1
(assert (= (wsumB c (+ lo 1) (+ hi 1)) (+ (- (wsumB c lo hi) (* (- hi lo) (select c lo))) (sumB c (+ lo 1) (+ hi 1)))))
(assert (not (= (wsumB c (+ lo 1) (+ hi 2)) (+ (- (wsumB c lo (+ hi 1)) (* (- (+ hi 1) lo) (select c lo))) (sumB c (+ lo 1) (+ hi 2))))))
(check-sat)
