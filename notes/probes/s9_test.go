package probe

import (
	"bytes"
	"path/filepath"
	"testing"

	"github.com/golang/protobuf/proto"
	"github.com/itchio/headway/state"
	"github.com/itchio/lake/pools/fspool"
	"github.com/itchio/savior/seeksource"
	"github.com/itchio/wharf/pwr"
	"github.com/itchio/wharf/pwr/bowl"
	"github.com/itchio/wharf/pwr/patcher"
	"github.com/itchio/wharf/pwr/rediff"
	"github.com/itchio/wharf/wire"
)

func TestS9_MalformedIndices(t *testing.T) {
	dir := t.TempDir()
	v1 := filepath.Join(dir, "v1")
	v2 := filepath.Join(dir, "v2")
	tc, _ := mkBuild(t, v1, map[string][]byte{"a": rnd(1, 100000)})
	sc, _ := mkBuild(t, v2, map[string][]byte{"a": rnd(1, 100000)})
	mk := func(msgs ...proto.Message) []byte {
		buf := new(bytes.Buffer)
		w := wire.NewWriteContext(buf)
		w.WriteMagic(pwr.PatchMagic)
		w.WriteMessage(&pwr.PatchHeader{Compression: &pwr.CompressionSettings{}})
		w.WriteMessage(tc)
		w.WriteMessage(sc)
		for _, m := range msgs {
			w.WriteMessage(m)
		}
		return buf.Bytes()
	}
	end := &pwr.SyncOp{Type: pwr.SyncOp_HEY_YOU_DID_IT}
	cases := map[string][]byte{
		"first op FileIndex=7":  mk(&pwr.SyncHeader{FileIndex: 0}, &pwr.SyncOp{Type: pwr.SyncOp_BLOCK_RANGE, FileIndex: 7, BlockIndex: 0, BlockSpan: 2}, end),
		"first op FileIndex=-1": mk(&pwr.SyncHeader{FileIndex: 0}, &pwr.SyncOp{Type: pwr.SyncOp_BLOCK_RANGE, FileIndex: -1, BlockIndex: 0, BlockSpan: 2}, end),
		"second op FileIndex=7": mk(&pwr.SyncHeader{FileIndex: 0}, &pwr.SyncOp{Type: pwr.SyncOp_DATA, Data: []byte("x")}, &pwr.SyncOp{Type: pwr.SyncOp_BLOCK_RANGE, FileIndex: 7, BlockIndex: 0, BlockSpan: 1}, end),
		"bsdiff target=9":       mk(&pwr.SyncHeader{FileIndex: 0, Type: pwr.SyncHeader_BSDIFF}, &pwr.BsdiffHeader{TargetIndex: 9}, end),
	}
	for name, patch := range cases {
		func() {
			defer func() {
				if r := recover(); r != nil {
					t.Logf("%s: patcher PANIC %v", name, r)
				}
			}()
			p, err := patcher.New(seeksource.FromBytes(patch), &state.Consumer{})
			if err != nil {
				t.Fatal(err)
			}
			tp := fspool.New(p.GetTargetContainer(), v1)
			b, err := bowl.NewFreshBowl(bowl.FreshBowlParams{SourceContainer: p.GetSourceContainer(), TargetContainer: p.GetTargetContainer(), TargetPool: tp, OutputFolder: t.TempDir()})
			if err != nil {
				t.Fatal(err)
			}
			err = p.Resume(nil, tp, b)
			t.Logf("%s: patcher err=%v", name, err)
		}()
		func() {
			defer func() {
				if r := recover(); r != nil {
					t.Logf("%s: rediff PANIC %v", name, r)
				}
			}()
			_, err := rediff.NewContext(rediff.Params{PatchReader: seeksource.FromBytes(patch), Consumer: &state.Consumer{}})
			t.Logf("%s: rediff err=%v", name, err)
		}()
	}
}
