package probe

import (
	"bytes"
	"fmt"
	"io"
	"math/rand"
	"os"
	"os/exec"
	"path/filepath"
	"strconv"
	"strings"
	"testing"
	"time"

	"github.com/itchio/arkive/zip"
	"github.com/itchio/headway/state"
	"github.com/itchio/wharf/archiver"
)

// blockingReaderAt blocks forever on reads that touch [lo,hi)
type blockingReaderAt struct {
	r      io.ReaderAt
	lo, hi int64
}

func (b *blockingReaderAt) ReadAt(p []byte, off int64) (int, error) {
	if off >= b.lo && off+int64(len(p)) <= b.hi {
		select {} // the "slow entry": never finishes
	}
	return b.r.ReadAt(p, off)
}

func buildZip(t *testing.T, dir string) []byte {
	src := filepath.Join(dir, "src")
	os.MkdirAll(src, 0o755)
	big := make([]byte, 300000)
	rand.New(rand.NewSource(1)).Read(big)
	os.WriteFile(filepath.Join(src, "a-big"), big, 0o644) // sorted first => entry 0
	for i := 0; i < 40; i++ {
		os.WriteFile(filepath.Join(src, fmt.Sprintf("f%02d", i)), []byte(fmt.Sprintf("file %d", i)), 0o644)
	}
	buf := new(bytes.Buffer)
	if _, err := archiver.CompressZip(buf, src, &state.Consumer{}); err != nil {
		t.Fatal(err)
	}
	return buf.Bytes()
}

func TestS13_Child(t *testing.T) {
	if os.Getenv("S13_CHILD") != "1" {
		t.Skip()
	}
	fmt.Fprintln(os.Stderr, "child start")
	zb, _ := os.ReadFile(os.Getenv("S13_ZIP"))
	zr, _ := zip.NewReader(bytes.NewReader(zb), int64(len(zb)))
	off, _ := zr.File[0].DataOffset()
	ra := &blockingReaderAt{r: bytes.NewReader(zb), lo: off + 1000, hi: off + int64(zr.File[0].CompressedSize64)}
	res, err := archiver.ExtractZip(ra, int64(len(zb)), os.Getenv("S13_OUT"), archiver.ExtractSettings{Consumer: &state.Consumer{OnMessage: func(l, m string) { fmt.Fprintln(os.Stderr, "child:", l, m) }}, Concurrency: 4, ResumeFrom: os.Getenv("S13_RESUME")})
	fmt.Fprintln(os.Stderr, "child done", res, err, off, zr.File[0].Name, zr.File[0].CompressedSize64)
}

func TestS13_ZipResumeAfterKill(t *testing.T) {
	if os.Getenv("S13_CHILD") == "1" {
		t.Skip()
	}
	dir := t.TempDir()
	zb := buildZip(t, dir)
	zpath := filepath.Join(dir, "a.zip")
	os.WriteFile(zpath, zb, 0o644)
	out := filepath.Join(dir, "out")
	resume := filepath.Join(dir, "resume")
	cmd := exec.Command(os.Args[0], "-test.run", "TestS13_Child")
	cmd.Env = append(os.Environ(), "S13_CHILD=1", "S13_ZIP="+zpath, "S13_OUT="+out, "S13_RESUME="+resume)
	cmd.Stdout = os.Stderr
	cmd.Stderr = os.Stderr
	if err := cmd.Start(); err != nil {
		t.Fatal(err)
	}
	last := -1
	for i := 0; i < 200; i++ {
		time.Sleep(20 * time.Millisecond)
		if b, err := os.ReadFile(resume); err == nil {
			if n, err := strconv.Atoi(strings.TrimSpace(string(b))); err == nil && n >= 5 {
				last = n
				break
			}
		}
	}
	cmd.Process.Kill() // the crash
	cmd.Wait()
	t.Logf("killed extraction with resume file = %d while entry 0 (a-big) was still being written", last)
	if last < 0 {
		t.Skip("could not reach the interleaving")
	}
	// restart with the same resume file, healthy reader
	res, err := archiver.ExtractZip(bytes.NewReader(zb), int64(len(zb)), out, archiver.ExtractSettings{Consumer: &state.Consumer{}, Concurrency: 4, ResumeFrom: resume})
	t.Logf("resumed: res=%+v err=%v", res, err)
	want, _ := os.ReadFile(filepath.Join(dir, "src", "a-big"))
	got, gerr := os.ReadFile(filepath.Join(out, "a-big"))
	t.Logf("a-big after resumed extraction: len=%d (want %d) readErr=%v equal=%v", len(got), len(want), gerr, bytes.Equal(got, want))
}
