package probe

import (
	"bytes"
	"context"
	"path/filepath"
	"testing"

	"github.com/itchio/savior/seeksource"
	"github.com/itchio/wharf/pwr"
	"github.com/itchio/wharf/wire"
)

func TestS7b_HashInfoFewerHashes(t *testing.T) {
	dir := t.TempDir()
	v := filepath.Join(dir, "v")
	c, sig := mkBuild(t, v, map[string][]byte{"big": rnd(1, 64*1024*100)})
	for _, keep := range []int{99, 50, 10, 0} {
		// well-formed stream carrying fewer hashes than the container needs
		buf := new(bytes.Buffer)
		w := wire.NewWriteContext(buf)
		w.WriteMagic(pwr.SignatureMagic)
		w.WriteMessage(&pwr.SignatureHeader{Compression: &pwr.CompressionSettings{}})
		w.WriteMessage(c)
		for _, h := range sig.Hashes[:keep] {
			w.WriteMessage(&pwr.BlockHash{WeakHash: h.WeakHash, StrongHash: h.StrongHash})
		}
		func() {
			defer func() {
				if r := recover(); r != nil {
					t.Logf("keep=%d: PANIC %v", keep, r)
				}
			}()
			ss := seeksource.FromBytes(buf.Bytes())
			ss.Resume(nil)
			si, err := pwr.ReadSignature(context.Background(), ss)
			if err != nil {
				t.Logf("keep=%d: ReadSignature err=%v", keep, err)
				return
			}
			_, err = pwr.ComputeHashInfo(si)
			t.Logf("keep=%d: hashes=%d cap=%d ComputeHashInfo err=%v", keep, len(si.Hashes), cap(si.Hashes), err)
		}()
	}
}
