package probe

import (
	"context"
	"os"
	"path/filepath"
	"testing"

	"github.com/itchio/headway/state"
	"github.com/itchio/wharf/archiver"
	"github.com/itchio/wharf/pwr"
)

func TestS11_HealDirReplacedByFile(t *testing.T) {
	res := map[string]int{}
	for i := 0; i < 30; i++ {
		dir := t.TempDir()
		v := filepath.Join(dir, "v")
		_, sig := mkBuild(t, v, map[string][]byte{"a/b/x": rnd(1, 1000), "a/y": rnd(2, 10), "c": rnd(3, 10)})
		zf, _ := os.Create(filepath.Join(dir, "v.zip"))
		if _, err := archiver.CompressZip(zf, v, &state.Consumer{}); err != nil {
			t.Fatal(err)
		}
		zf.Close()
		// damage: replace dir a (and its subtree) by a regular file
		os.RemoveAll(filepath.Join(v, "a"))
		os.WriteFile(filepath.Join(v, "a"), []byte("i am a file"), 0o644)
		vctx := &pwr.ValidatorContext{HealPath: "archive," + filepath.Join(dir, "v.zip"), Consumer: &state.Consumer{}}
		err := vctx.Validate(context.Background(), v, sig)
		if err != nil {
			res["validate+heal error: "+err.Error()[len(err.Error())-30:]]++
			continue
		}
		if err := pwr.AssertValid(v, sig); err != nil {
			res["healed but invalid"]++
			continue
		}
		res["ok"]++
	}
	t.Logf("%v", res)
}
