package probe

import (
	"bytes"
	"crypto/sha1"
	"fmt"
	"path/filepath"
	"testing"

	"github.com/itchio/headway/state"
	"github.com/itchio/lake/pools/fspool"
	"github.com/itchio/savior/seeksource"
	"github.com/itchio/wharf/pwr"
	"github.com/itchio/wharf/pwr/rediff"
)

func TestS8_RediffNondeterminism(t *testing.T) {
	dir := t.TempDir()
	v1 := filepath.Join(dir, "v1")
	v2 := filepath.Join(dir, "v2")
	x := rnd(1, 65536*2)
	y := rnd(2, 65536*2)
	mkBuild(t, v1, map[string][]byte{"x": x, "y": y})
	n := append(append([]byte{}, x[:65536]...), y[:65536]...)
	n = append(n, rnd(9, 1000)...)
	mkBuild(t, v2, map[string][]byte{"z": n})
	patch, _, tc, sc := diff(t, v1, v2)
	seen := map[string]int{}
	targets := map[int64]int{}
	for i := 0; i < 60; i++ {
		src := seeksource.FromBytes(patch)
		rc, err := rediff.NewContext(rediff.Params{PatchReader: src, Consumer: &state.Consumer{}, Compression: &pwr.CompressionSettings{}})
		if err != nil {
			t.Fatal(err)
		}
		for _, m := range rc.GetDiffMappings() {
			targets[m.TargetIndex]++
		}
		opt := new(bytes.Buffer)
		if err := rc.Optimize(rediff.OptimizeParams{TargetPool: fspool.New(tc, v1), SourcePool: fspool.New(sc, v2), PatchWriter: opt}); err != nil {
			t.Fatal(err)
		}
		seen[fmt.Sprintf("%x", sha1.Sum(opt.Bytes()))]++
	}
	t.Logf("distinct optimized patches over 60 runs: %d %v; chosen targets: %v", len(seen), seen, targets)
}
