package probe

import (
	"bytes"
	"os"
	"path/filepath"
	"testing"

	"github.com/itchio/headway/state"
	"github.com/itchio/lake/pools/fspool"
	"github.com/itchio/savior"
	"github.com/itchio/savior/seeksource"
	"github.com/itchio/wharf/pwr"
	"github.com/itchio/wharf/pwr/bowl"
	"github.com/itchio/wharf/pwr/patcher"
)

// old build damaged AFTER diffing; applied through the safekeeper.
func TestS14_SafekeeperSilentWrong(t *testing.T) {
	type dmg struct {
		name string
		size int
		f    func(p string, c []byte)
	}
	cases := []dmg{
		{"truncate-at-block-boundary/rename", 200000, func(p string, c []byte) { os.Truncate(p, 65536) }},
		{"truncate-mid-block/rename", 200000, func(p string, c []byte) { os.Truncate(p, 100000) }},
		{"extend-inside-last-block/rename", 100, func(p string, c []byte) { os.WriteFile(p, append(append([]byte{}, c...), bytes.Repeat([]byte{7}, 50)...), 0o644) }},
		{"extend-past-last-block/rename", 65536 + 100, func(p string, c []byte) { os.WriteFile(p, append(append([]byte{}, c...), bytes.Repeat([]byte{7}, 70000)...), 0o644) }},
	}
	for _, patched := range []bool{false, true} {
		for _, c := range cases {
			dir := t.TempDir()
			v1 := filepath.Join(dir, "v1")
			v2 := filepath.Join(dir, "v2")
			content := rnd(int64(c.size)+7, c.size)
			newContent := content
			newName := "renamed"
			if patched {
				// new file = old content + appended fresh tail => block-range ops, not a whole-file copy
				newContent = append(append([]byte{}, content...), rnd(99, 3000)...)
				newName = "keep"
			}
			mkBuild(t, v1, map[string][]byte{"keep": content})
			mkBuild(t, v2, map[string][]byte{newName: newContent})
			patch, _, _, _ := diff(t, v1, v2)
			oldSig := sigOf(t, v1)
			c.f(filepath.Join(v1, "keep"), content) // damage

			p, err := patcher.New(seeksource.FromBytes(patch), &state.Consumer{})
			if err != nil {
				t.Fatal(err)
			}
			inner := fspool.New(p.GetTargetContainer(), v1)
			sk, _ := pwr.NewSafeKeeper(pwr.SafeKeeperParams{Inner: inner, Open: func() (savior.SeekSource, error) {
				ss := seeksource.FromBytes(oldSig)
				_, err := ss.Resume(nil)
				return ss, err
			}})
			out := filepath.Join(dir, "out")
			b, err := bowl.NewFreshBowl(bowl.FreshBowlParams{SourceContainer: p.GetSourceContainer(), TargetContainer: p.GetTargetContainer(), TargetPool: sk, OutputFolder: out})
			if err != nil {
				t.Fatal(err)
			}
			err = p.Resume(nil, sk, b)
			if err == nil {
				err = b.Commit()
			}
			got, _ := os.ReadFile(filepath.Join(out, newName))
			same := bytes.Equal(got, newContent)
			verdict := "ok (error)"
			if err == nil && same {
				verdict = "ok (correct)"
			} else if err == nil && !same {
				verdict = "SILENTLY WRONG"
			}
			t.Logf("patched=%v %-40s err=%v outlen=%d want=%d => %s", patched, c.name, err != nil, len(got), len(newContent), verdict)
		}
	}
}
