package probe

import (
	"bytes"
	"fmt"
	"path/filepath"
	"testing"

	"github.com/itchio/headway/state"
	"github.com/itchio/lake/pools/fspool"
	"github.com/itchio/savior/seeksource"
	"github.com/itchio/wharf/pwr"
	"github.com/itchio/wharf/pwr/bowl"
	"github.com/itchio/wharf/pwr/patcher"
	"github.com/itchio/wharf/pwr/rediff"
)

func TestS5_SkipBsdiff2049(t *testing.T) {
	dir := t.TempDir()
	v1 := filepath.Join(dir, "v1")
	v2 := filepath.Join(dir, "v2")
	f1 := map[string][]byte{}
	f2 := map[string][]byte{}
	for i := 0; i < 2060; i++ {
		name := fmt.Sprintf("f%05d", i)
		f1[name] = rnd(int64(i), 40)
		c := rnd(int64(i), 40)
		c[3] ^= 0xff
		f2[name] = c
	}
	mkBuild(t, v1, f1)
	mkBuild(t, v2, f2)
	patch, _, tc, sc := diff(t, v1, v2)
	src := seeksource.FromBytes(patch)
	rc, err := rediff.NewContext(rediff.Params{PatchReader: src, Consumer: &state.Consumer{}, ForceMapAll: true, Compression: &pwr.CompressionSettings{}})
	if err != nil {
		t.Fatal(err)
	}
	t.Logf("mappings: %d, mapping[2049]=%+v", len(rc.GetDiffMappings()), rc.GetDiffMappings()[2049])
	opt := new(bytes.Buffer)
	if err := rc.Optimize(rediff.OptimizeParams{TargetPool: fspool.New(tc, v1), SourcePool: fspool.New(sc, v2), PatchWriter: opt}); err != nil {
		t.Fatal(err)
	}
	for _, wl := range []map[int64]bool{nil, {0: true}, {2049: true}, {5: true, 2055: true}} {
		out := t.TempDir()
		ps := seeksource.FromBytes(opt.Bytes())
		p, err := patcher.New(ps, &state.Consumer{})
		if err != nil {
			t.Fatal(err)
		}
		p.SetSourceIndexWhitelist(wl)
		tp := fspool.New(p.GetTargetContainer(), v1)
		b, err := bowl.NewFreshBowl(bowl.FreshBowlParams{SourceContainer: p.GetSourceContainer(), TargetContainer: p.GetTargetContainer(), TargetPool: tp, OutputFolder: out})
		if err != nil {
			t.Fatal(err)
		}
		err = p.Resume(nil, tp, b)
		t.Logf("whitelist=%v: err=%v touched=%d", wl, err, p.GetTouchedFiles())
	}
}
