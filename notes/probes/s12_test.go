package probe

import (
	"bytes"
	"testing"

	"github.com/golang/protobuf/proto"
	"github.com/itchio/headway/state"
	"github.com/itchio/wharf/bsdiff"
)

func TestS12_BsdiffEmptyOld(t *testing.T) {
	for _, c := range []struct{ o, n, p int }{{1, 3, 0}, {2, 3, 1}, {3, 0, 0}, {1, 1, 1}, {2, 5, 16}} {
		func() {
			defer func() {
				if r := recover(); r != nil {
					t.Logf("old=%d new=%d partitions=%d: PANIC %v", c.o, c.n, c.p, r)
				}
			}()
			dc := &bsdiff.DiffContext{Partitions: c.p}
			err := dc.Do(bytes.NewReader(rnd(1, c.o)), bytes.NewReader(rnd(2, c.n)), func(m proto.Message) error { return nil }, &state.Consumer{})
			t.Logf("old=%d new=%d partitions=%d: err=%v", c.o, c.n, c.p, err)
		}()
	}
}
