package probe

import (
	"bytes"
	"context"
	"errors"
	"io"
	"math/rand"
	"testing"

	"github.com/itchio/wharf/wsync"
)

type failAfter struct {
	r    io.Reader
	left int
}

func (f *failAfter) Read(p []byte) (int, error) {
	if f.left <= 0 {
		return 0, errors.New("disk on fire")
	}
	if len(p) > f.left {
		p = p[:f.left]
	}
	n, err := f.r.Read(p)
	f.left -= n
	return n, err
}

func TestS16_ComputeDiffSwallowsReadError(t *testing.T) {
	bs := 16
	old := make([]byte, bs*8)
	rand.New(rand.NewSource(1)).Read(old)
	ctx := wsync.NewContext(bs)
	var sig []wsync.BlockHash
	ctx.CreateSignature(context.Background(), 0, bytes.NewReader(old), func(h wsync.BlockHash) error { sig = append(sig, h); return nil })
	lib := wsync.NewBlockLibrary(sig)
	for _, failAt := range []int{bs * 3, bs*3 + 5, 0} {
		total := 0
		err := ctx.ComputeDiff(&failAfter{r: bytes.NewReader(old), left: failAt}, lib, func(op wsync.Operation) error {
			if op.Type == wsync.OpBlockRange {
				total += int(op.BlockSpan) * bs
			} else {
				total += len(op.Data)
			}
			return nil
		}, 0)
		t.Logf("source fails after %d of %d bytes: ComputeDiff err=%v, ops cover %d bytes", failAt, len(old), err, total)
	}
}
