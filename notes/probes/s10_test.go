package probe

import (
	"bytes"
	"fmt"
	"path/filepath"
	"testing"

	"github.com/itchio/headway/state"
	"github.com/itchio/wharf/archiver"
)

func TestS10_ZipCounts(t *testing.T) {
	dir := t.TempDir()
	v := filepath.Join(dir, "v")
	files := map[string][]byte{}
	for i := 0; i < 3000; i++ {
		files[fmt.Sprintf("d%d/f%d", i%50, i)] = rnd(int64(i), 10)
	}
	mkBuild(t, v, files)
	buf := new(bytes.Buffer)
	if _, err := archiver.CompressZip(buf, v, &state.Consumer{}); err != nil {
		t.Fatal(err)
	}
	bad := 0
	for i := 0; i < 20; i++ {
		res, err := archiver.ExtractZip(bytes.NewReader(buf.Bytes()), int64(buf.Len()), t.TempDir(), archiver.ExtractSettings{Consumer: &state.Consumer{}, Concurrency: 16})
		if err != nil {
			t.Fatal(err)
		}
		if res.Files != 3000 || res.Dirs != 50 {
			bad++
			t.Logf("run %d: files=%d dirs=%d (expected 3000/50)", i, res.Files, res.Dirs)
		}
	}
	t.Logf("runs with wrong counts: %d/20", bad)
}
