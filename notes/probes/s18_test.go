package probe

import (
	"bytes"
	"testing"

	"github.com/itchio/wharf/wsync"
)

// F17: ComputeDiff with block size 1: when the buffer wraps with nothing left in the window and the source ends
// exactly there, the rolling branch reads buffer[sum.head-1] with sum.head == 0.
func TestS18_ComputeDiffBlockSize1WrapAtEOF(t *testing.T) {
	for _, L := range []int{4194303, 4194304, 4194305, 4194306, 4194307} {
		func() {
			defer func() {
				if r := recover(); r != nil {
					t.Logf("bs=1 len=%d: PANIC %v", L, r)
				}
			}()
			ctx := wsync.NewContext(1)
			lib := wsync.NewBlockLibrary(nil)
			src := bytes.Repeat([]byte{7}, L)
			// make consecutive bytes differ so that the "β == βold" shortcut is irrelevant
			for i := range src {
				src[i] = byte(i * 31)
			}
			n := 0
			err := ctx.ComputeDiff(bytes.NewReader(src), lib, func(op wsync.Operation) error { n += len(op.Data); return nil }, -1)
			t.Logf("bs=1 len=%d: err=%v bytes=%d", L, err, n)
		}()
	}
}
