package probe

import (
	"os"
	"path/filepath"
	"testing"

	"github.com/itchio/headway/state"
	"github.com/itchio/lake/pools/fspool"
	"github.com/itchio/savior"
	"github.com/itchio/savior/seeksource"
	"github.com/itchio/wharf/pwr"
	"github.com/itchio/wharf/pwr/bowl"
	"github.com/itchio/wharf/pwr/patcher"
)

// F16: safeKeeper.GetReader hands out a reader that is not rewound.  Two whole-file copies of the same old
// file in a row (old {a}, new {a, b = copy of a}): the pool's cached handle is still at EOF for the second.
func TestS17_SafekeeperGetReaderNotRewound(t *testing.T) {
	dir := t.TempDir()
	v1 := filepath.Join(dir, "v1")
	v2 := filepath.Join(dir, "v2")
	content := rnd(11, 100000)
	mkBuild(t, v1, map[string][]byte{"a": content})
	mkBuild(t, v2, map[string][]byte{"a": content, "b": content})
	patch, _, _, _ := diff(t, v1, v2)
	oldSig := sigOf(t, v1)
	src := seeksource.FromBytes(patch)
	p, err := patcher.New(src, &state.Consumer{})
	if err != nil {
		t.Fatal(err)
	}
	inner := fspool.New(p.GetTargetContainer(), v1)
	sk, err := pwr.NewSafeKeeper(pwr.SafeKeeperParams{Inner: inner, Open: func() (savior.SeekSource, error) {
		ss := seeksource.FromBytes(oldSig)
		_, err := ss.Resume(nil)
		return ss, err
	}})
	if err != nil {
		t.Fatal(err)
	}
	out := filepath.Join(dir, "out")
	b, err := bowl.NewFreshBowl(bowl.FreshBowlParams{SourceContainer: p.GetSourceContainer(), TargetContainer: p.GetTargetContainer(), TargetPool: sk, OutputFolder: out})
	if err != nil {
		t.Fatal(err)
	}
	err = p.Resume(nil, sk, b)
	if err == nil {
		err = b.Commit()
	}
	for _, n := range []string{"a", "b"} {
		st, serr := os.Stat(filepath.Join(out, n))
		sz := int64(-1)
		if serr == nil {
			sz = st.Size()
		}
		verdict := "ok"
		if err == nil && sz != int64(len(content)) {
			verdict = "SILENTLY WRONG"
		}
		t.Logf("err=%v out/%s size=%d want=%d => %s", err, n, sz, len(content), verdict)
	}
}
