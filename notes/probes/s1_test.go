package probe

import (
	"bytes"
	"math/rand"
	"testing"

	"github.com/itchio/wharf/wsync"
)

func TestS1_DataOpExceedsMax(t *testing.T) {
	for _, extra := range []int{0, 1, 100, 65535, 65536, 65537, 131071} {
		ctx := wsync.NewContext(64 * 1024)
		lib := wsync.NewBlockLibrary(nil)
		data := make([]byte, wsync.MaxDataOp+extra)
		rand.New(rand.NewSource(1)).Read(data)
		maxLen := 0
		n := 0
		err := ctx.ComputeDiff(bytes.NewReader(data), lib, func(op wsync.Operation) error {
			if op.Type == wsync.OpData {
				n++
				if len(op.Data) > maxLen {
					maxLen = len(op.Data)
				}
			}
			return nil
		}, -1)
		if err != nil {
			t.Fatal(err)
		}
		t.Logf("extra=%d: %d data ops, max len %d (MaxDataOp=%d) exceed=%v", extra, n, maxLen, wsync.MaxDataOp, maxLen > wsync.MaxDataOp)
	}
}
