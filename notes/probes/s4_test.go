package probe

import (
	"bytes"
	"context"
	"fmt"
	"io"
	"math/rand"
	"os"
	"path/filepath"
	"testing"

	"github.com/itchio/headway/state"
	"github.com/itchio/lake/pools/fspool"
	"github.com/itchio/lake/tlc"
	"github.com/itchio/savior"
	"github.com/itchio/savior/seeksource"
	"github.com/itchio/wharf/bsdiff"
	"github.com/itchio/wharf/pwr"
	"github.com/itchio/wharf/pwr/bowl"
	"github.com/itchio/wharf/pwr/patcher"
	"github.com/golang/protobuf/proto"
)

func rnd(seed int64, n int) []byte {
	b := make([]byte, n)
	rand.New(rand.NewSource(seed)).Read(b)
	return b
}

func diff(t *testing.T, v1, v2 string) (patch []byte, sig []byte, tc, sc *tlc.Container) {
	tc, err := tlc.WalkAny(v1, tlc.WalkOpts{})
	if err != nil {
		t.Fatal(err)
	}
	sc, err = tlc.WalkAny(v2, tlc.WalkOpts{})
	if err != nil {
		t.Fatal(err)
	}
	tsig, err := pwr.ComputeSignature(context.Background(), tc, fspool.New(tc, v1), &state.Consumer{})
	if err != nil {
		t.Fatal(err)
	}
	dctx := pwr.DiffContext{
		Compression:     &pwr.CompressionSettings{Algorithm: pwr.CompressionAlgorithm_NONE},
		Consumer:        &state.Consumer{},
		SourceContainer: sc, Pool: fspool.New(sc, v2),
		TargetContainer: tc, TargetSignature: tsig,
	}
	pb, sb := new(bytes.Buffer), new(bytes.Buffer)
	if err := dctx.WritePatch(context.Background(), pb, sb); err != nil {
		t.Fatal(err)
	}
	return pb.Bytes(), sb.Bytes(), tc, sc
}

func sigOf(t *testing.T, dir string) []byte {
	c, err := tlc.WalkAny(dir, tlc.WalkOpts{})
	if err != nil {
		t.Fatal(err)
	}
	empty := t.TempDir()
	_, sig, _, _ := diff(t, empty, dir)
	_ = c
	return sig
}

func TestS4_SafekeeperUndamaged(t *testing.T) {
	for _, size := range []int{0, 1, 65535, 65536, 65537, 131072, 200000} {
		dir := t.TempDir()
		v1 := filepath.Join(dir, "v1")
		v2 := filepath.Join(dir, "v2")
		content := rnd(int64(size)+7, size)
		mkBuild(t, v1, map[string][]byte{"keep": content, "other": rnd(3, 100)})
		mkBuild(t, v2, map[string][]byte{"renamed": content, "other": rnd(3, 100)})
		patch, _, _, _ := diff(t, v1, v2)
		oldSig := sigOf(t, v1)

		src := seeksource.FromBytes(patch)
		p, err := patcher.New(src, &state.Consumer{})
		if err != nil {
			t.Fatal(err)
		}
		inner := fspool.New(p.GetTargetContainer(), v1)
		sk, err := pwr.NewSafeKeeper(pwr.SafeKeeperParams{Inner: inner, Open: func() (savior.SeekSource, error) {
			ss := seeksource.FromBytes(oldSig)
			_, err := ss.Resume(nil)
			return ss, err
		}})
		if err != nil {
			t.Fatal(err)
		}
		out := filepath.Join(dir, "out")
		b, err := bowl.NewFreshBowl(bowl.FreshBowlParams{SourceContainer: p.GetSourceContainer(), TargetContainer: p.GetTargetContainer(), TargetPool: sk, OutputFolder: out})
		if err != nil {
			t.Fatal(err)
		}
		err = p.Resume(nil, sk, b)
		t.Logf("size=%d: undamaged old build through safekeeper: err=%v", size, err)
	}
}

func TestS6_BsdiffDivZero(t *testing.T) {
	for _, c := range []struct{ o, n, p int }{{6, 3, 4}, {100, 1, 2}, {100, 15, 16}, {100, 16, 16}} {
		func() {
			defer func() {
				if r := recover(); r != nil {
					t.Logf("old=%d new=%d partitions=%d: PANIC %v", c.o, c.n, c.p, r)
				}
			}()
			dc := &bsdiff.DiffContext{Partitions: c.p}
			err := dc.Do(bytes.NewReader(rnd(1, c.o)), bytes.NewReader(rnd(2, c.n)), func(m proto.Message) error { return nil }, &state.Consumer{})
			t.Logf("old=%d new=%d partitions=%d: err=%v", c.o, c.n, c.p, err)
		}()
	}
}

func TestS7_HashInfoTruncatedSig(t *testing.T) {
	dir := t.TempDir()
	v := filepath.Join(dir, "v")
	mkBuild(t, v, map[string][]byte{"big": rnd(1, 64*1024*100)})
	sig := sigOf(t, v)
	for _, cut := range []int{len(sig) - 1, len(sig) / 2, len(sig) / 10} {
		func() {
			defer func() {
				if r := recover(); r != nil {
					t.Logf("cut=%d: PANIC %v", cut, r)
				}
			}()
			ss := seeksource.FromBytes(sig[:cut])
			ss.Resume(nil)
			si, err := pwr.ReadSignature(context.Background(), ss)
			if err != nil {
				t.Logf("cut=%d: ReadSignature err=%v", cut, err)
				return
			}
			_, err = pwr.ComputeHashInfo(si)
			t.Logf("cut=%d: hashes=%d ComputeHashInfo err=%v", cut, len(si.Hashes), err)
		}()
	}
}

var _ = fmt.Sprint
var _ = io.EOF
var _ = os.Remove
