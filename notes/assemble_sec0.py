#!/usr/bin/env python3
"""rebuild DESIGN.md §0 from notes/sec0_head.md + a table generated from evidence/*.json + notes/sec0_tail.md"""
import json, sys, glob
sys.path.insert(0, '/verif')
from importlib import import_module
P = import_module('govc.properties')
rows = []
fns = set()
for pid in sorted(P.PROPERTIES):
    e = json.load(open('/verif/evidence/%s.json' % pid))
    c = e['coverage']
    for f in c['functions']:
        fns.add(f['function'])
    rows.append('| %s | %d | %d | %d | %.0f s |' % (pid, len(c['functions']), c['obligations'], c['discharged'], e['wall_s']))
tab = ("### 0.1.1 Numbers (quick tier, this machine, result cache cold or warm as it happened)\n\n"
       "| property | functions under contract | obligations | discharged | wall |\n|---|---|---|---|---|\n" + '\n'.join(rows) +
       "\n\n%d functions and function literals of `/repo` are under contract in total (many serve several properties).  "
       "Per-function obligation counts, generator time, abstractions used, assumed contracts used and solver time per back end "
       "are in `evidence/<id>.json -> coverage.functions / solver_time_s`.\n\n" % len(fns))
head = open('/verif/notes/sec0_head.md').read()
tail = open('/verif/notes/sec0_tail.md').read()
i = head.index('### 0.2 Deviations')
sec0 = head[:i] + tab + head[i:] + tail
p = '/verif/DESIGN.md'
s = open(p).read()
marker = "---------------------------------------------------------------------------\n\n## 1. What is being built"
a = s.index('## 0. As built (authoritative)')
b = s.index(marker)
s = s[:a] + sec0 + "\n" + s[b:]
open(p, 'w').write(s)
print('section 0:', len(sec0.splitlines()), 'lines;', len(fns), 'functions')
