#!/usr/bin/env python3
"""run the registered check(s) against externally produced seeded changes.
   selftest/seeded_eval.py <dir-with-m*/patch.diff> <property>[,<property>...]"""
import json, os, shutil, subprocess, sys, tempfile
VERIF = os.path.dirname(os.path.dirname(os.path.abspath(__file__)))

def main():
    root, props = sys.argv[1], sys.argv[2].split(',')
    for m in sorted(os.listdir(root)):
        pd = os.path.join(root, m, 'patch.diff')
        if not os.path.exists(pd):
            continue
        d = tempfile.mkdtemp(prefix='wharf-seed-')
        try:
            subprocess.run(['rsync', '-a', '--exclude', '.git', '/repo/', d + '/'], check=True)
            p = subprocess.run(['patch', '-p1', '-s', '-d', d, '-i', pd], stdout=subprocess.PIPE, stderr=subprocess.STDOUT, universal_newlines=True)
            if p.returncode != 0:
                print(m, 'PATCH-FAILED', p.stdout[-300:]); continue
            env = dict(os.environ, VERIF_REPO=d, VERIF_EVIDENCE_DIR=d + '/.evidence', VERIF_REPLAY_DIR=d + '/.replays')
            res = []
            for prop in props:
                c = subprocess.run([os.path.join(VERIF, 'bin', 'check'), prop, 'quick'], env=env, stdout=subprocess.PIPE, stderr=subprocess.STDOUT, universal_newlines=True)
                failed = []
                try:
                    failed = json.load(open(os.path.join(d, '.evidence', prop + '.json')))['coverage'].get('failed', [])
                except Exception:
                    pass
                res.append((prop, c.returncode, failed[:3]))
            what = ''
            try:
                what = json.load(open(os.path.join(root, m, 'meta.json'))).get('what', '')[:110]
            except Exception:
                pass
            caught = any(rc == 1 for _, rc, _ in res)
            print('%-4s %-7s %s | %s' % (m, 'CAUGHT' if caught else 'MISSED', '; '.join('%s rc=%d %s' % r for r in res), what))
        finally:
            shutil.rmtree(d, ignore_errors=True)
main()
