#!/usr/bin/env python3
"""run the registered quick check of the owning property against every confirmed seeded change kept under
/verif/seeded/<Cnn>-m<i>/ and write /verif/seeded/RESULTS.md (+ RESULTS.json).

   selftest/seeded_all.py [-j N] [ids...]

Each change is applied to a scratch copy of /repo's working tree (mktemp dir outside /repo and /verif, removed
afterwards); /repo itself is never touched.  A change whose patch no longer applies is reported as PATCH-FAILED
(it has to be rebased by hand onto the repaired tree)."""
import json, os, shutil, subprocess, sys, tempfile, concurrent.futures
VERIF = os.path.dirname(os.path.dirname(os.path.abspath(__file__)))
SEEDED = os.path.join(VERIF, 'seeded')


def one(name):
    md = os.path.join(SEEDED, name)
    meta = json.load(open(os.path.join(md, 'meta.json')))
    prop = meta.get('property') or name.split('-')[0]
    d = tempfile.mkdtemp(prefix='wharf-seed-')
    try:
        subprocess.run(['rsync', '-a', '--exclude', '.git', '/repo/', d + '/'], check=True)
        p = subprocess.run(['patch', '-p1', '-s', '-d', d, '-i', os.path.join(md, 'patch.diff')], stdout=subprocess.PIPE,
                           stderr=subprocess.STDOUT, universal_newlines=True)
        if p.returncode != 0:
            return {'id': name, 'property': prop, 'status': 'PATCH-FAILED', 'failed': [], 'what': meta.get('what', '')}
        env = dict(os.environ, VERIF_REPO=d, VERIF_EVIDENCE_DIR=d + '/.evidence', VERIF_REPLAY_DIR=d + '/.replays', VERIF_JOBS='6')
        c = subprocess.run([os.path.join(VERIF, 'bin', 'check'), prop, 'quick'], env=env, stdout=subprocess.PIPE,
                           stderr=subprocess.STDOUT, universal_newlines=True)
        failed = []
        try:
            failed = json.load(open(os.path.join(d, '.evidence', prop + '.json')))['coverage'].get('failed', [])
        except Exception:
            pass
        replayed = 'replayed' if ' replayed: yes' in c.stdout or 'REPLAYED' in c.stdout else ''
        return {'id': name, 'property': prop, 'status': 'CAUGHT' if c.returncode == 1 else 'MISSED', 'failed': failed,
                'what': meta.get('what', ''), 'replayed': replayed, 'rebased': bool(meta.get('rebased'))}
    finally:
        shutil.rmtree(d, ignore_errors=True)


def main():
    args = sys.argv[1:]
    jobs = 3
    if args[:1] == ['-j']:
        jobs = int(args[1]); args = args[2:]
    names = sorted(n for n in os.listdir(SEEDED) if os.path.exists(os.path.join(SEEDED, n, 'patch.diff')))
    if args:
        names = [n for n in names if any(n.startswith(a) for a in args)]
    res = []
    with concurrent.futures.ThreadPoolExecutor(max_workers=jobs) as ex:
        for r in ex.map(one, names):
            print('%-8s %-12s %s' % (r['id'], r['status'], '; '.join(r['failed'][:2])), flush=True)
            res.append(r)
    old = {}
    rj = os.path.join(SEEDED, 'RESULTS.json')
    if os.path.exists(rj) and args:
        old = {r['id']: r for r in json.load(open(rj))}
    for r in res:
        old[r['id']] = r
    allr = [old[k] for k in sorted(old)] if args else res
    json.dump(allr, open(rj, 'w'), indent=1)
    with open(os.path.join(SEEDED, 'RESULTS.md'), 'w') as f:
        n_c = sum(1 for r in allr if r['status'] == 'CAUGHT')
        f.write('# Seeded property-breaking changes vs. the registered quick checks\n\n')
        f.write('Produced by `selftest/seeded_all.py` (each change applied to a scratch copy of /repo; `bin/check <property> quick`).\n')
        f.write('%d of %d caught.  Every change compiles, keeps the 171-test suite green and breaks its property (demo test in the same directory).\n\n' % (n_c, len(allr)))
        f.write('| change | result | failed obligation(s) (first three) | what was changed |\n|---|---|---|---|\n')
        for r in allr:
            f.write('| %s%s | %s | %s | %s |\n' % (r['id'], ' (rebased)' if r.get('rebased') else '', r['status'],
                                                    '<br>'.join('`%s`' % x for x in r['failed'][:3]), r['what'].replace('|', '/')[:260]))
    print('%d/%d caught' % (sum(1 for r in allr if r['status'] == 'CAUGHT'), len(allr)))


main()
