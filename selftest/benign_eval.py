#!/usr/bin/env python3
"""run the owning property's quick check against harmless (property-preserving) changes: every one must exit 0.
   selftest/benign_eval.py <root with <Cnn>/b*/patch.diff> [ids...]"""
import json, os, shutil, subprocess, sys, tempfile, concurrent.futures
VERIF = os.path.dirname(os.path.dirname(os.path.abspath(__file__)))

def one(item):
    root, pid, b = item
    md = os.path.join(root, pid, b)
    d = tempfile.mkdtemp(prefix='wharf-benign-')
    try:
        subprocess.run(['rsync', '-a', '--exclude', '.git', '/repo/', d + '/'], check=True)
        p = subprocess.run(['patch', '-p1', '-s', '-d', d, '-i', os.path.join(md, 'patch.diff')], stdout=subprocess.PIPE, stderr=subprocess.STDOUT, universal_newlines=True)
        if p.returncode != 0:
            return (pid, b, 'PATCH-FAILED', [], '')
        env = dict(os.environ, VERIF_REPO=d, VERIF_EVIDENCE_DIR=d + '/.evidence', VERIF_REPLAY_DIR=d + '/.replays', VERIF_JOBS='6')
        c = subprocess.run([os.path.join(VERIF, 'bin', 'check'), pid, 'quick'], env=env, stdout=subprocess.PIPE, stderr=subprocess.STDOUT, universal_newlines=True)
        failed = []
        try:
            failed = json.load(open(os.path.join(d, '.evidence', pid + '.json')))['coverage'].get('failed', [])
        except Exception:
            pass
        kind = ''
        try:
            kind = json.load(open(os.path.join(md, 'meta.json'))).get('kind', '')[:60]
        except Exception:
            pass
        return (pid, b, 'QUIET' if c.returncode == 0 else 'FALSE-ALARM', failed[:3], kind)
    finally:
        shutil.rmtree(d, ignore_errors=True)

def main():
    root = sys.argv[1]
    ids = sys.argv[2:] or sorted(x for x in os.listdir(root) if os.path.isdir(os.path.join(root, x)))
    items = []
    for pid in ids:
        for b in sorted(os.listdir(os.path.join(root, pid))):
            if os.path.exists(os.path.join(root, pid, b, 'patch.diff')):
                items.append((root, pid, b))
    n_bad = 0
    with concurrent.futures.ThreadPoolExecutor(max_workers=3) as ex:
        for r in ex.map(one, items):
            print('%s-%s %-12s %-55s %s' % (r[0], r[1], r[2], r[4], '; '.join(r[3])), flush=True)
            n_bad += r[2] != 'QUIET'
    print('%d of %d raise an alarm' % (n_bad, len(items)))
main()
