#!/usr/bin/env python3
"""confirm externally produced seeded changes: suite green with the change, demo fails with / passes without.
   selftest/confirm_seeded.py <src root (/tmp/seeded)> <ids,...>  -> copies confirmed ones to /verif/seeded/<id>-m<i>/"""
import json, os, re, shutil, subprocess, sys, tempfile
VERIF = os.path.dirname(os.path.dirname(os.path.abspath(__file__)))
ENV = dict(os.environ, GOFLAGS='-mod=mod', GOPROXY='off')
ENV.pop('GOSUMDB', None); ENV.pop('GOTOOLCHAIN', None)

def sh(cmd, cwd, timeout=900):
    p = subprocess.run(cmd, shell=True, cwd=cwd, env=ENV, stdout=subprocess.PIPE, stderr=subprocess.STDOUT, universal_newlines=True, timeout=timeout)
    return p.returncode, p.stdout

def main():
    root, ids = sys.argv[1], sys.argv[2].split(',')
    for pid in ids:
        for m in sorted(os.listdir(os.path.join(root, pid))):
            md = os.path.join(root, pid, m)
            if not os.path.exists(os.path.join(md, 'patch.diff')):
                continue
            demo = open(os.path.join(md, 'demo_test.go')).read()
            mm = re.search(r'place in:\s*([\w/.\-]+)', demo)
            pkgdir = mm.group(1).strip('/') if mm else None
            d = tempfile.mkdtemp(prefix='wharf-confirm-')
            try:
                subprocess.run(['rsync', '-a', '--exclude', '.git', '/repo/', d + '/'], check=True)
                testfile = os.path.join(d, pkgdir, 'zz_seeded_demo_test.go')
                open(testfile, 'w').write(demo)
                tests = '|'.join(re.findall(r'^func (Test\w+)\(', demo, re.M))
                rc0, out0 = sh("go test -vet=off -count=1 -run '^(%s)$' ./%s/" % (tests, pkgdir), d)
                rcp, outp = sh("patch -p1 -s -i '%s'" % os.path.join(md, 'patch.diff'), d)
                if rcp != 0:
                    print(pid, m, 'PATCH-FAILED', outp[-200:]); continue
                rc1, out1 = sh("go test -vet=off -count=1 -run '^(%s)$' ./%s/" % (tests, pkgdir), d)
                os.remove(testfile)
                rc2, out2 = sh("go test -vet=off -count=1 ./...", d)
                ok = (rc0 == 0 and rc1 != 0 and rc2 == 0)
                print(pid, m, 'CONFIRMED' if ok else 'NOT-CONFIRMED', 'demo-without rc=%d demo-with rc=%d suite-with rc=%d' % (rc0, rc1, rc2), flush=True)
                if ok:
                    dst = os.path.join(VERIF, 'seeded', '%s-%s' % (pid, m))
                    os.makedirs(dst, exist_ok=True)
                    shutil.copy(os.path.join(md, 'patch.diff'), dst)
                    shutil.copy(os.path.join(md, 'demo_test.go'), dst)
                    meta = json.load(open(os.path.join(md, 'meta.json')))
                    meta['confirmed'] = "confirmed on a scratch copy of /repo HEAD: demo passes without the change (rc=0), fails with it (rc=%d), full suite `go test -vet=off -count=1 ./...` green with it (rc=0)" % rc1
                    meta['demo_dir'] = pkgdir
                    json.dump(meta, open(os.path.join(dst, 'meta.json'), 'w'), indent=1)
                else:
                    print((out0[-300:] if rc0 else '') + (out1[-200:] if rc1 == 0 else '') + (out2[-400:] if rc2 else ''))
            finally:
                shutil.rmtree(d, ignore_errors=True)
main()
