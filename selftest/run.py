#!/usr/bin/env python3
"""must-fail / must-pass corpus runner (DESIGN §3.7).

  selftest/run.py [--only M26,M29] [--tests]      run mutants (and harmless edits) against the checks

Each mutant is a directory selftest/mutants/<id>/ with
  patch.diff   (git apply -p1 on a scratch copy of /repo's working tree)
  meta.json    {"property": "C18", "expect": ["drip.Writer.Write/pre:dw.Validate-content", ...], "note": "..."}
A mutant passes the self-test when `bin/check <property> quick` on the mutated copy exits 1 and at least one of the
expected obligation keys is among the failed ones.  A harmless edit passes when the check exits 0.
Scratch copies live under a mktemp dir outside /repo and /verif and are removed afterwards.
"""
import json, os, shutil, subprocess, sys, tempfile, concurrent.futures

HERE = os.path.dirname(os.path.abspath(__file__))
VERIF = os.path.dirname(HERE)


def scratch_copy():
    d = tempfile.mkdtemp(prefix='wharf-mut-')
    subprocess.run(['rsync', '-a', '--exclude', '.git', '/repo/', d + '/'], check=True)
    return d


def run_one(kind, mid, run_tests=False):
    mdir = os.path.join(HERE, kind, mid)
    meta = json.load(open(os.path.join(mdir, 'meta.json')))
    d = scratch_copy()
    try:
        p = subprocess.run(['git', 'apply', '--unsafe-paths', '-p1', '--directory', d, os.path.join(mdir, 'patch.diff')],
                           cwd='/', stdout=subprocess.PIPE, stderr=subprocess.STDOUT, universal_newlines=True)
        if p.returncode != 0:
            p = subprocess.run(['patch', '-p1', '-d', d, '-i', os.path.join(mdir, 'patch.diff')], stdout=subprocess.PIPE,
                               stderr=subprocess.STDOUT, universal_newlines=True)
            if p.returncode != 0:
                return mid, 'PATCH-FAILED', p.stdout[-500:]
        env = dict(os.environ)
        env['VERIF_REPO'] = d
        env['VERIF_EVIDENCE_DIR'] = d + '/.evidence'
        env['VERIF_REPLAY_DIR'] = d + '/.replays'
        out_all = ''
        verdicts = []
        props = meta['property'] if isinstance(meta['property'], list) else [meta['property']]
        for prop in props:
            c = subprocess.run([os.path.join(VERIF, 'bin', 'check'), prop, 'quick'], env=env, stdout=subprocess.PIPE,
                               stderr=subprocess.STDOUT, universal_newlines=True)
            out_all += c.stdout
            verdicts.append(c.returncode)
        failed_keys = []
        try:
            for prop in props:
                ev = json.load(open(os.path.join(d, '.evidence', prop + '.json')))
                failed_keys += ev['coverage'].get('failed', [])
        except Exception:
            pass
        if kind == 'mutants':
            if not any(v == 1 for v in verdicts):
                return mid, 'MISSED', out_all[-600:]
            exp = meta.get('expect') or []
            if exp and not any(any(e in k for k in failed_keys) for e in exp):
                return mid, 'CAUGHT-OTHER', 'failed=%s expected=%s' % (failed_keys[:6], exp)
            return mid, 'CAUGHT', ','.join(failed_keys[:4])
        else:
            if any(v != 0 for v in verdicts):
                return mid, 'FALSE-ALARM', out_all[-800:]
            return mid, 'PASS', ''
    finally:
        shutil.rmtree(d, ignore_errors=True)


def main():
    only = None
    if '--only' in sys.argv:
        only = set(sys.argv[sys.argv.index('--only') + 1].split(','))
    jobs = []
    for kind in ('mutants', 'harmless'):
        kd = os.path.join(HERE, kind)
        for mid in sorted(os.listdir(kd)):
            if only and mid not in only:
                continue
            if os.path.exists(os.path.join(kd, mid, 'meta.json')):
                jobs.append((kind, mid))
    bad = 0
    with concurrent.futures.ThreadPoolExecutor(max_workers=4) as ex:
        for (kind, mid), res in zip(jobs, ex.map(lambda j: run_one(*j), jobs)):
            mid, verdict, detail = res
            ok = verdict in ('CAUGHT', 'PASS')
            if not ok:
                bad += 1
            print('%-9s %-28s %-12s %s' % (kind, mid, verdict, detail if not ok else detail[:100]))
    print('selftest: %d cases, %d not as expected' % (len(jobs), bad))
    return 1 if bad else 0


if __name__ == '__main__':
    sys.exit(main())
