#!/bin/sh
# selftest/mk.sh <kind> <id> <property> <expect-substring> <note>   -- records the CURRENT uncommitted diff of /repo (excluding contract files) as a corpus entry and reverts it
kind="$1"; id="$2"; prop="$3"; expect="$4"; note="$5"
d="/verif/selftest/$kind/$id"; mkdir -p "$d"
git -C /repo diff -- . ':(exclude)*contracts_verif.go' > "$d/patch.diff"
[ -s "$d/patch.diff" ] || { echo "empty diff"; exit 1; }
python3 - "$d" "$prop" "$expect" "$note" <<'PY'
import json,sys
d,prop,expect,note=sys.argv[1:5]
json.dump({"property":prop,"expect":[e for e in expect.split("|") if e],"note":note},open(d+"/meta.json","w"),indent=1)
PY
git -C /repo diff --name-only -- . ':(exclude)*contracts_verif.go' | xargs -r git -C /repo checkout --
echo "recorded $d"
