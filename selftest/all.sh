#!/bin/sh
# run every claimed check (quick by default) on /repo's working tree; prints one summary line per property
mode="${1:-quick}"
cd "$(dirname "$0")/.."
rc=0
for p in $(python3 -c "from govc.properties import CLAIMED; print(' '.join(sorted(CLAIMED)))"); do
  out=$(bin/check "$p" "$mode" 2>&1); r=$?
  echo "$out" | grep -E "VIOLATION|KNOWN-FINDING" | head -5
  echo "$out" | tail -1
  [ $r -ne 0 ] && rc=1
done
exit $rc
