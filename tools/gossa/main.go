// gossa: mechanical exporter of typed SSA (go/ssa, NaiveForm) for the packages
// of the module in -dir.  Output: one JSON document on stdout (or -o file).
// Nothing here interprets the code: it is a serialiser of x/tools' IR plus the
// type table, package constants and globals the verifier needs.
package main

import (
	"encoding/json"
	"flag"
	"fmt"
	"go/constant"
	"go/token"
	"go/types"
	"os"
	"path/filepath"
	"sort"
	"strings"

	"golang.org/x/tools/go/packages"
	"golang.org/x/tools/go/ssa"
	"golang.org/x/tools/go/ssa/ssautil"
)

type J = map[string]interface{}

var (
	fset    *token.FileSet
	typeTab = map[string]J{}
	rootDir string
)

func tstr(t types.Type) string {
	if t == nil {
		return ""
	}
	s := types.TypeString(t, nil)
	regType(s, t)
	return s
}

func regType(s string, t types.Type) {
	if _, ok := typeTab[s]; ok {
		return
	}
	d := J{}
	typeTab[s] = d
	switch tt := t.(type) {
	case *types.Basic:
		d["kind"] = "basic"
		d["name"] = tt.Name()
		info := tt.Info()
		d["integer"] = info&types.IsInteger != 0
		d["unsigned"] = info&types.IsUnsigned != 0
		d["float"] = info&types.IsFloat != 0
		d["string"] = info&types.IsString != 0
		d["boolean"] = info&types.IsBoolean != 0
	case *types.Named:
		d["kind"] = "named"
		d["underlying"] = tstr(tt.Underlying())
		if tt.Obj() != nil && tt.Obj().Pkg() != nil {
			d["pkg"] = tt.Obj().Pkg().Path()
		}
		if tt.Obj() != nil {
			d["name"] = tt.Obj().Name()
		}
	case *types.Alias:
		d["kind"] = "named"
		d["underlying"] = tstr(types.Unalias(tt).Underlying())
	case *types.Pointer:
		d["kind"] = "pointer"
		d["elem"] = tstr(tt.Elem())
	case *types.Slice:
		d["kind"] = "slice"
		d["elem"] = tstr(tt.Elem())
	case *types.Array:
		d["kind"] = "array"
		d["elem"] = tstr(tt.Elem())
		d["len"] = tt.Len()
	case *types.Map:
		d["kind"] = "map"
		d["key"] = tstr(tt.Key())
		d["elem"] = tstr(tt.Elem())
	case *types.Chan:
		d["kind"] = "chan"
		d["elem"] = tstr(tt.Elem())
	case *types.Struct:
		d["kind"] = "struct"
		fs := []J{}
		for i := 0; i < tt.NumFields(); i++ {
			f := tt.Field(i)
			fs = append(fs, J{"name": f.Name(), "type": tstr(f.Type()), "embedded": f.Embedded()})
		}
		d["fields"] = fs
	case *types.Interface:
		d["kind"] = "interface"
		ms := []string{}
		for i := 0; i < tt.NumMethods(); i++ {
			ms = append(ms, tt.Method(i).Name())
		}
		d["methods"] = ms
	case *types.Signature:
		d["kind"] = "signature"
		ps := []string{}
		for i := 0; i < tt.Params().Len(); i++ {
			ps = append(ps, tstr(tt.Params().At(i).Type()))
		}
		rs := []string{}
		for i := 0; i < tt.Results().Len(); i++ {
			rs = append(rs, tstr(tt.Results().At(i).Type()))
		}
		d["params"] = ps
		d["results"] = rs
		d["variadic"] = tt.Variadic()
	case *types.Tuple:
		d["kind"] = "tuple"
		es := []string{}
		for i := 0; i < tt.Len(); i++ {
			es = append(es, tstr(tt.At(i).Type()))
		}
		d["elems"] = es
	default:
		d["kind"] = "other"
	}
}

func pos(p token.Pos) string {
	if !p.IsValid() {
		return ""
	}
	pp := fset.Position(p)
	f := pp.Filename
	if rel, err := filepath.Rel(rootDir, f); err == nil && !strings.HasPrefix(rel, "..") {
		f = rel
	}
	return fmt.Sprintf("%s:%d:%d", f, pp.Line, pp.Column)
}

func fnName(f *ssa.Function) string {
	if f == nil {
		return ""
	}
	return f.String()
}

func operand(v ssa.Value) interface{} {
	if v == nil {
		return nil
	}
	switch vv := v.(type) {
	case *ssa.Const:
		d := J{"t": tstr(vv.Type())}
		if vv.Value == nil {
			d["c"] = "nil"
		} else {
			switch vv.Value.Kind() {
			case constant.Bool:
				d["c"] = fmt.Sprint(constant.BoolVal(vv.Value))
			case constant.String:
				d["c"] = constant.StringVal(vv.Value)
				d["str"] = true
			case constant.Int:
				d["c"] = vv.Value.ExactString()
			case constant.Float:
				d["c"] = vv.Value.ExactString()
				d["float"] = true
			default:
				d["c"] = vv.Value.ExactString()
			}
		}
		return d
	case *ssa.Global:
		return J{"g": vv.String(), "t": tstr(vv.Type())}
	case *ssa.Function:
		return J{"fn": fnName(vv), "t": tstr(vv.Type())}
	case *ssa.Builtin:
		return J{"b": vv.Name()}
	case *ssa.Parameter:
		return J{"p": vv.Name()}
	case *ssa.FreeVar:
		return J{"fv": vv.Name()}
	default:
		return v.Name()
	}
}

func callCommon(c *ssa.CallCommon) J {
	d := J{}
	args := []interface{}{}
	for _, a := range c.Args {
		args = append(args, operand(a))
	}
	d["args"] = args
	if c.IsInvoke() {
		d["mode"] = "invoke"
		d["recv"] = operand(c.Value)
		d["method"] = c.Method.Name()
		d["iface"] = tstr(c.Value.Type())
		d["sig"] = tstr(c.Method.Type())
	} else {
		if sc := c.StaticCallee(); sc != nil {
			d["callee"] = fnName(sc)
			if _, isClosure := c.Value.(*ssa.MakeClosure); isClosure {
				d["mode"] = "closure"
				d["value"] = operand(c.Value)
			} else {
				d["mode"] = "static"
			}
			if sc.Pkg != nil {
				d["calleepkg"] = sc.Pkg.Pkg.Path()
			} else if sc.Object() != nil && sc.Object().Pkg() != nil {
				d["calleepkg"] = sc.Object().Pkg().Path()
			}
			if sc.Signature.Recv() != nil {
				d["hasrecv"] = true
			}
		} else if b, ok := c.Value.(*ssa.Builtin); ok {
			d["mode"] = "builtin"
			d["callee"] = b.Name()
		} else {
			d["mode"] = "dynamic"
			d["value"] = operand(c.Value)
		}
		d["sig"] = tstr(c.Value.Type())
	}
	return d
}

func instr(in ssa.Instruction) J {
	d := J{"pos": pos(in.Pos())}
	if v, ok := in.(ssa.Value); ok {
		d["id"] = v.Name()
		d["type"] = tstr(v.Type())
	}
	switch i := in.(type) {
	case *ssa.Alloc:
		d["op"] = "Alloc"
		d["heap"] = i.Heap
		d["name"] = i.Comment
		d["elem"] = tstr(i.Type().Underlying().(*types.Pointer).Elem())
	case *ssa.BinOp:
		d["op"] = "BinOp"
		d["tok"] = i.Op.String()
		d["x"] = operand(i.X)
		d["y"] = operand(i.Y)
		d["xtype"] = tstr(i.X.Type())
		d["ytype"] = tstr(i.Y.Type())
	case *ssa.Call:
		d["op"] = "Call"
		d["call"] = callCommon(&i.Call)
	case *ssa.ChangeInterface:
		d["op"] = "ChangeInterface"
		d["x"] = operand(i.X)
	case *ssa.ChangeType:
		d["op"] = "ChangeType"
		d["x"] = operand(i.X)
		d["xtype"] = tstr(i.X.Type())
	case *ssa.Convert:
		d["op"] = "Convert"
		d["x"] = operand(i.X)
		d["xtype"] = tstr(i.X.Type())
	case *ssa.MultiConvert:
		d["op"] = "MultiConvert"
		d["x"] = operand(i.X)
	case *ssa.DebugRef:
		d["op"] = "DebugRef"
	case *ssa.Defer:
		d["op"] = "Defer"
		d["call"] = callCommon(&i.Call)
	case *ssa.Extract:
		d["op"] = "Extract"
		d["x"] = operand(i.Tuple)
		d["index"] = i.Index
	case *ssa.Field:
		d["op"] = "Field"
		d["x"] = operand(i.X)
		d["field"] = i.Field
		st := i.X.Type().Underlying().(*types.Struct)
		d["fname"] = st.Field(i.Field).Name()
		d["xtype"] = tstr(i.X.Type())
	case *ssa.FieldAddr:
		d["op"] = "FieldAddr"
		d["x"] = operand(i.X)
		d["field"] = i.Field
		pt := i.X.Type().Underlying().(*types.Pointer).Elem()
		st := pt.Underlying().(*types.Struct)
		d["fname"] = st.Field(i.Field).Name()
		d["stype"] = tstr(pt)
	case *ssa.Go:
		d["op"] = "Go"
		d["call"] = callCommon(&i.Call)
	case *ssa.If:
		d["op"] = "If"
		d["cond"] = operand(i.Cond)
	case *ssa.Index:
		d["op"] = "Index"
		d["x"] = operand(i.X)
		d["index"] = operand(i.Index)
		d["xtype"] = tstr(i.X.Type())
	case *ssa.IndexAddr:
		d["op"] = "IndexAddr"
		d["x"] = operand(i.X)
		d["index"] = operand(i.Index)
		d["xtype"] = tstr(i.X.Type())
	case *ssa.Jump:
		d["op"] = "Jump"
	case *ssa.Lookup:
		d["op"] = "Lookup"
		d["x"] = operand(i.X)
		d["index"] = operand(i.Index)
		d["commaok"] = i.CommaOk
		d["xtype"] = tstr(i.X.Type())
	case *ssa.MakeChan:
		d["op"] = "MakeChan"
		d["size"] = operand(i.Size)
	case *ssa.MakeClosure:
		d["op"] = "MakeClosure"
		d["fn"] = fnName(i.Fn.(*ssa.Function))
		bs := []interface{}{}
		for _, b := range i.Bindings {
			bs = append(bs, operand(b))
		}
		d["bindings"] = bs
	case *ssa.MakeInterface:
		d["op"] = "MakeInterface"
		d["x"] = operand(i.X)
		d["xtype"] = tstr(i.X.Type())
	case *ssa.MakeMap:
		d["op"] = "MakeMap"
	case *ssa.MakeSlice:
		d["op"] = "MakeSlice"
		d["len"] = operand(i.Len)
		d["cap"] = operand(i.Cap)
	case *ssa.MapUpdate:
		d["op"] = "MapUpdate"
		d["map"] = operand(i.Map)
		d["key"] = operand(i.Key)
		d["value"] = operand(i.Value)
		d["maptype"] = tstr(i.Map.Type())
	case *ssa.Next:
		d["op"] = "Next"
		d["iter"] = operand(i.Iter)
		d["isstring"] = i.IsString
	case *ssa.Panic:
		d["op"] = "Panic"
		d["x"] = operand(i.X)
	case *ssa.Phi:
		d["op"] = "Phi"
		es := []interface{}{}
		for _, e := range i.Edges {
			es = append(es, operand(e))
		}
		d["edges"] = es
		d["comment"] = i.Comment
	case *ssa.Range:
		d["op"] = "Range"
		d["x"] = operand(i.X)
		d["xtype"] = tstr(i.X.Type())
	case *ssa.Return:
		d["op"] = "Return"
		rs := []interface{}{}
		for _, r := range i.Results {
			rs = append(rs, operand(r))
		}
		d["results"] = rs
	case *ssa.RunDefers:
		d["op"] = "RunDefers"
	case *ssa.Select:
		d["op"] = "Select"
		d["blocking"] = i.Blocking
		ss := []J{}
		for _, s := range i.States {
			sd := J{"chan": operand(s.Chan), "chantype": tstr(s.Chan.Type())}
			if s.Dir == types.SendOnly {
				sd["dir"] = "send"
				sd["send"] = operand(s.Send)
			} else {
				sd["dir"] = "recv"
			}
			ss = append(ss, sd)
		}
		d["states"] = ss
	case *ssa.Send:
		d["op"] = "Send"
		d["chan"] = operand(i.Chan)
		d["x"] = operand(i.X)
	case *ssa.Slice:
		d["op"] = "Slice"
		d["x"] = operand(i.X)
		d["low"] = operand(i.Low)
		d["high"] = operand(i.High)
		d["max"] = operand(i.Max)
		d["xtype"] = tstr(i.X.Type())
	case *ssa.SliceToArrayPointer:
		d["op"] = "SliceToArrayPointer"
		d["x"] = operand(i.X)
	case *ssa.Store:
		d["op"] = "Store"
		d["addr"] = operand(i.Addr)
		d["val"] = operand(i.Val)
		d["vtype"] = tstr(i.Val.Type())
	case *ssa.TypeAssert:
		d["op"] = "TypeAssert"
		d["x"] = operand(i.X)
		d["asserted"] = tstr(i.AssertedType)
		d["commaok"] = i.CommaOk
	case *ssa.UnOp:
		d["op"] = "UnOp"
		d["tok"] = i.Op.String()
		d["x"] = operand(i.X)
		d["commaok"] = i.CommaOk
		d["xtype"] = tstr(i.X.Type())
	default:
		d["op"] = fmt.Sprintf("Unknown:%T", in)
	}
	return d
}

func function(f *ssa.Function) J {
	d := J{"name": fnName(f), "pos": pos(f.Pos()), "synthetic": f.Synthetic}
	if f.Syntax() != nil {
		d["end"] = pos(f.Syntax().End())
		d["start"] = pos(f.Syntax().Pos())
	}
	if f.Parent() != nil {
		d["parent"] = fnName(f.Parent())
	}
	an := []string{}
	for _, a := range f.AnonFuncs {
		an = append(an, fnName(a))
	}
	d["anon"] = an
	ps := []J{}
	for _, p := range f.Params {
		ps = append(ps, J{"name": p.Name(), "type": tstr(p.Type())})
	}
	d["params"] = ps
	fvs := []J{}
	for _, p := range f.FreeVars {
		fvs = append(fvs, J{"name": p.Name(), "type": tstr(p.Type())})
	}
	d["freevars"] = fvs
	rs := []J{}
	res := f.Signature.Results()
	for i := 0; i < res.Len(); i++ {
		rs = append(rs, J{"name": res.At(i).Name(), "type": tstr(res.At(i).Type())})
	}
	d["results"] = rs
	d["hasrecv"] = f.Signature.Recv() != nil
	d["sig"] = tstr(f.Signature)
	bs := []J{}
	for _, b := range f.Blocks {
		bd := J{"idx": b.Index, "comment": b.Comment}
		preds := []int{}
		for _, p := range b.Preds {
			preds = append(preds, p.Index)
		}
		succs := []int{}
		for _, s := range b.Succs {
			succs = append(succs, s.Index)
		}
		bd["preds"] = preds
		bd["succs"] = succs
		if b.Idom() != nil {
			bd["idom"] = b.Idom().Index
		} else {
			bd["idom"] = -1
		}
		ins := []J{}
		for _, in := range b.Instrs {
			if _, ok := in.(*ssa.DebugRef); ok {
				continue
			}
			ins = append(ins, instr(in))
		}
		bd["instrs"] = ins
		bs = append(bs, bd)
	}
	d["blocks"] = bs
	if f.Recover != nil {
		d["recover"] = f.Recover.Index
	}
	return d
}

func main() {
	dir := flag.String("dir", "/repo", "module directory")
	out := flag.String("o", "", "output file (default stdout)")
	tags := flag.String("tags", "verif", "build tags")
	skipPB := flag.Bool("skippb", true, "skip functions declared in *.pb.go")
	flag.Parse()
	patterns := flag.Args()
	if len(patterns) == 0 {
		patterns = []string{"./..."}
	}
	rootDir, _ = filepath.Abs(*dir)
	cfg := &packages.Config{
		Mode:       packages.LoadAllSyntax,
		Dir:        *dir,
		BuildFlags: []string{"-tags=" + *tags},
		Env:        append(os.Environ(), "GOFLAGS=-mod=mod", "GOPROXY=off"),
	}
	pkgs, err := packages.Load(cfg, patterns...)
	if err != nil {
		fmt.Fprintln(os.Stderr, "gossa: load:", err)
		os.Exit(2)
	}
	nerr := 0
	packages.Visit(pkgs, nil, func(p *packages.Package) {
		for _, e := range p.Errors {
			fmt.Fprintln(os.Stderr, "gossa:", e)
			nerr++
		}
	})
	if nerr > 0 {
		os.Exit(2)
	}
	fset = pkgs[0].Fset
	prog, spkgs := ssautil.Packages(pkgs, ssa.NaiveForm)
	prog.Build()
	want := map[*ssa.Package]bool{}
	for _, sp := range spkgs {
		if sp != nil {
			want[sp] = true
		}
	}
	wantInit := map[string]bool{}
	for _, p := range pkgs {
		wantInit[p.PkgPath] = true
	}
	pkgOut := map[string]J{}
	for sp := range want {
		if !wantInit[sp.Pkg.Path()] {
			continue
		}
		pd := J{"path": sp.Pkg.Path(), "name": sp.Pkg.Name()}
		consts := J{}
		globals := J{}
		for name, m := range sp.Members {
			switch mm := m.(type) {
			case *ssa.NamedConst:
				v := mm.Value
				cd := J{"t": tstr(v.Type())}
				if v.Value != nil {
					if v.Value.Kind() == constant.String {
						cd["c"] = constant.StringVal(v.Value)
						cd["str"] = true
					} else {
						cd["c"] = v.Value.ExactString()
					}
				}
				consts[name] = cd
			case *ssa.Global:
				globals[name] = J{"t": tstr(mm.Type())}
			case *ssa.Type:
				tstr(mm.Type())
			}
		}
		pd["consts"] = consts
		pd["globals"] = globals
		pd["funcs"] = []J{}
		pkgOut[sp.Pkg.Path()] = pd
	}
	all := ssautil.AllFunctions(prog)
	fns := []*ssa.Function{}
	for f := range all {
		var p *ssa.Package
		if f.Pkg != nil {
			p = f.Pkg
		} else if f.Parent() != nil {
			pp := f
			for pp.Parent() != nil {
				pp = pp.Parent()
			}
			p = pp.Pkg
		}
		if p == nil || !want[p] || !wantInit[p.Pkg.Path()] {
			continue
		}
		if f.Blocks == nil {
			continue
		}
		if f.Synthetic != "" && !strings.HasPrefix(f.Synthetic, "package initializer") {
			// wrappers, bound methods, thunks: not source code
			continue
		}
		if *skipPB {
			file := fset.Position(f.Pos()).Filename
			if strings.HasSuffix(file, ".pb.go") {
				continue
			}
		}
		if strings.HasSuffix(fset.Position(f.Pos()).Filename, "_test.go") {
			continue
		}
		fns = append(fns, f)
	}
	sort.Slice(fns, func(i, j int) bool {
		pi, pj := fset.Position(fns[i].Pos()), fset.Position(fns[j].Pos())
		if pi.Filename != pj.Filename {
			return pi.Filename < pj.Filename
		}
		if pi.Offset != pj.Offset {
			return pi.Offset < pj.Offset
		}
		return fns[i].String() < fns[j].String()
	})
	for _, f := range fns {
		pp := f
		for pp.Parent() != nil {
			pp = pp.Parent()
		}
		pd := pkgOut[pp.Pkg.Pkg.Path()]
		pd["funcs"] = append(pd["funcs"].([]J), function(f))
	}
	doc := J{"packages": pkgOut, "types": typeTab, "root": rootDir}
	var w *os.File = os.Stdout
	if *out != "" {
		w, err = os.Create(*out)
		if err != nil {
			fmt.Fprintln(os.Stderr, err)
			os.Exit(2)
		}
		defer w.Close()
	}
	enc := json.NewEncoder(w)
	if err := enc.Encode(doc); err != nil {
		fmt.Fprintln(os.Stderr, err)
		os.Exit(2)
	}
}
